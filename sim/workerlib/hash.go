package workerlib

import (
	"math"
	"reflect"
	"sort"
	"unsafe"
)

// hashEach deep-hashes every package-level variable (given by address).
// Probe only: pointer identity of funcs/chans/unsafe pointers is hashed as
// "present or nil"; map entries are combined order-independently.
func hashEach(ptrs []interface{}) []uint64 {
	out := make([]uint64, len(ptrs))
	for i, p := range ptrs {
		h := hasher{seen: map[unsafe.Pointer]bool{}}
		h.walk(reflect.ValueOf(p).Elem(), 0)
		out[i] = h.h
	}
	return out
}

func fold(hs []uint64) uint64 {
	h := uint64(1469598103934665603)
	for _, v := range hs {
		h = (h ^ v) * 1099511628211
	}
	return h
}

type hasher struct {
	h    uint64
	seen map[unsafe.Pointer]bool
	n    int
}

func (h *hasher) mix(v uint64) { h.h = (h.h ^ v) * 1099511628211; h.h ^= h.h >> 29 }

func (h *hasher) walk(v reflect.Value, depth int) {
	h.n++
	if depth > 64 || h.n > 5_000_000 {
		return
	}
	switch v.Kind() {
	case reflect.Bool:
		if v.Bool() {
			h.mix(1)
		} else {
			h.mix(2)
		}
	case reflect.Int, reflect.Int8, reflect.Int16, reflect.Int32, reflect.Int64:
		h.mix(uint64(v.Int()))
	case reflect.Uint, reflect.Uint8, reflect.Uint16, reflect.Uint32, reflect.Uint64, reflect.Uintptr:
		h.mix(v.Uint())
	case reflect.Float32, reflect.Float64:
		h.mix(math.Float64bits(v.Float()))
	case reflect.Complex64, reflect.Complex128:
		c := v.Complex()
		h.mix(math.Float64bits(real(c)))
		h.mix(math.Float64bits(imag(c)))
	case reflect.String:
		s := v.String()
		h.mix(uint64(len(s)) + 77)
		for i := 0; i < len(s); i++ {
			h.mix(uint64(s[i]))
		}
	case reflect.Slice:
		if v.IsNil() {
			h.mix(3)
			return
		}
		h.mix(uint64(v.Len()) + 99)
		if v.Type().Elem().Kind() == reflect.Uint8 {
			for i := 0; i < v.Len(); i++ {
				h.mix(v.Index(i).Uint())
			}
			return
		}
		for i := 0; i < v.Len(); i++ {
			h.walk(v.Index(i), depth+1)
		}
	case reflect.Array:
		for i := 0; i < v.Len(); i++ {
			h.walk(v.Index(i), depth+1)
		}
	case reflect.Struct:
		for i := 0; i < v.NumField(); i++ {
			h.walk(v.Field(i), depth+1)
		}
	case reflect.Ptr:
		if v.IsNil() {
			h.mix(4)
			return
		}
		p := unsafe.Pointer(v.Pointer())
		if h.seen[p] {
			h.mix(5)
			return
		}
		h.seen[p] = true
		h.walk(v.Elem(), depth+1)
	case reflect.Interface:
		if v.IsNil() {
			h.mix(6)
			return
		}
		h.walk(v.Elem(), depth+1)
	case reflect.Map:
		if v.IsNil() {
			h.mix(7)
			return
		}
		h.mix(uint64(v.Len()) + 111)
		var ent []uint64
		it := v.MapRange()
		for it.Next() {
			sub := hasher{seen: h.seen}
			sub.walk(it.Key(), depth+1)
			sub.walk(it.Value(), depth+1)
			ent = append(ent, sub.h)
		}
		sort.Slice(ent, func(i, j int) bool { return ent[i] < ent[j] })
		for _, e := range ent {
			h.mix(e)
		}
	case reflect.Func, reflect.Chan, reflect.UnsafePointer:
		if v.IsNil() {
			h.mix(8)
		} else {
			h.mix(9)
		}
	}
}
