package workerlib

import (
	"verif/sim/common"
	"verif/sim/simrt"
)

type classIdx struct {
	all, residue, probe, long, short, panics []int32
	fams                                     [][]int32
	built                                    bool
}

var classes classIdx

func buildClasses(c *common.Corpus) {
	if classes.built {
		return
	}
	classes.built = true
	classes.fams = Families(c)
	for i, f := range c.Flags {
		id := int32(i)
		classes.all = append(classes.all, id)
		if f&common.FResidue != 0 {
			classes.residue = append(classes.residue, id)
		}
		if f&common.FProbe != 0 {
			classes.probe = append(classes.probe, id)
		}
		if f&common.FHuge != 0 {
			// huge inputs are only used by the dedicated sweeps
		} else if f&common.FLong != 0 {
			classes.long = append(classes.long, id)
		} else if len(c.In[i]) <= 64 {
			classes.short = append(classes.short, id)
		}
		if (len(c.Ref[0][i]) > 0 && c.Ref[0][i][0] == 'P') || (len(c.Ref[1][i]) > 0 && c.Ref[1][i][0] == 'P') {
			classes.panics = append(classes.panics, id)
		}
	}
}

func pick(r *simrt.RNG, l []int32, fallback []int32) int32 {
	if len(l) == 0 {
		l = fallback
	}
	return l[r.Intn(len(l))]
}

var taskCountDist = []int{1, 2, 2, 2, 2, 2, 2, 2, 3, 3, 3, 3, 4, 4, 4, 5, 6, 7, 8, 8}
var callCountDist = []int{1, 1, 1, 1, 2, 2, 2, 2, 3, 3, 4, 5, 6, 8}

// genRun derives one run (workload + policy) from a single seed.
func genRun(c *common.Corpus, seed uint64, cold bool, syncHeavy bool) (*simrt.RunSpec, string) {
	buildClasses(c)
	r := simrt.NewRNG(seed)
	spec := &simrt.RunSpec{Seed: seed}
	nt := taskCountDist[r.Intn(len(taskCountDist))]
	if cold && nt < 2 {
		nt = 2 + r.Intn(3)
	}
	mk := func(api uint8, idx int32) simrt.Call { return simrt.Call{API: api, Idx: idx, Input: c.In[idx]} }
	api := func() uint8 { return uint8(r.Intn(2)) }
	nonLong := func() int32 {
		for k := 0; k < 8; k++ {
			i := pick(r, classes.all, nil)
			if c.Flags[i]&(common.FLong|common.FHuge) == 0 {
				return i
			}
		}
		return pick(r, classes.short, classes.all)
	}
	shape := ""
	x0 := r.Intn(100)
	if r.Intn(8) == 0 && len(classes.fams) > 0 {
		x0 = 1000
	}
	switch x := x0; {
	case x == 1000:
		// tasks draw from ONE token family with random APIs: concurrent and
		// ordered lookups of the same tokens by both detectors
		shape = "token_family"
		fam := classes.fams[r.Intn(len(classes.fams))]
		for t := 0; t < nt; t++ {
			n := 2 + r.Intn(6)
			var calls []simrt.Call
			for k := 0; k < n; k++ {
				calls = append(calls, mk(api(), fam[r.Intn(len(fam))]))
			}
			spec.Tasks = append(spec.Tasks, calls)
		}
	case x >= 94 && x < 97 && len(classes.long) > 1:
		// several tasks each inside a LONG call at the same time (per-token scratch
		// buffers, worker pools and finalizer-managed memory are only used by these)
		shape = "two_long"
		if nt < 2 {
			nt = 2
		}
		if nt > 3 {
			nt = 3
		}
		a := api()
		for t := 0; t < nt; t++ {
			n := 1 + r.Intn(2)
			var calls []simrt.Call
			for k := 0; k < n; k++ {
				calls = append(calls, mk(a, pick(r, classes.long, classes.all)))
			}
			spec.Tasks = append(spec.Tasks, calls)
		}
	case x < 4:
		// one input asked very many times by one task while others do ordinary work
		shape = "hammer"
		a, i := api(), pick(r, classes.probe, classes.short)
		n := []int{20, 50, 120, 300}[r.Intn(4)]
		var calls []simrt.Call
		for k := 0; k < n; k++ {
			calls = append(calls, mk(a, i))
		}
		spec.Tasks = append(spec.Tasks, calls)
		for t := 1; t < nt && t < 3; t++ {
			var cs []simrt.Call
			for k := 0; k < 3; k++ {
				cs = append(cs, mk(api(), pick(r, classes.probe, classes.short)))
			}
			if r.Intn(2) == 0 {
				cs = append(cs, mk(a, i))
			}
			spec.Tasks = append(spec.Tasks, cs)
		}
	case x < 30:
		shape = "uniform"
		for t := 0; t < nt; t++ {
			n := callCountDist[r.Intn(len(callCountDist))]
			var calls []simrt.Call
			for k := 0; k < n; k++ {
				calls = append(calls, mk(api(), nonLong()))
			}
			spec.Tasks = append(spec.Tasks, calls)
		}
	case x < 52:
		shape = "residue_probe"
		for t := 0; t < nt; t++ {
			n := 1 + r.Intn(3)
			var calls []simrt.Call
			for k := 0; k < n; k++ {
				a := api()
				b := a
				if r.Intn(8) == 0 {
					b = 1 - a
				}
				calls = append(calls, mk(a, pick(r, classes.residue, classes.all)), mk(b, pick(r, classes.probe, classes.short)))
			}
			spec.Tasks = append(spec.Tasks, calls)
		}
	case x < 66:
		shape = "same_input"
		spec.ShareInputs = seed&2 != 0 // half of these runs: one string value shared by all callers
		a, i := api(), nonLong()
		n := 1 + r.Intn(3)
		for t := 0; t < nt; t++ {
			var calls []simrt.Call
			for k := 0; k < n; k++ {
				calls = append(calls, mk(a, i))
			}
			spec.Tasks = append(spec.Tasks, calls)
		}
	case x < 78:
		shape = "two_alternating"
		a1, i1 := api(), nonLong()
		a2, i2 := a1, pick(r, classes.probe, classes.short)
		if r.Intn(4) == 0 {
			a2 = 1 - a1
		}
		n := 2 + r.Intn(5)
		for t := 0; t < nt; t++ {
			var calls []simrt.Call
			for k := 0; k < n; k++ {
				if (k+t)%2 == 0 {
					calls = append(calls, mk(a1, i1))
				} else {
					calls = append(calls, mk(a2, i2))
				}
			}
			spec.Tasks = append(spec.Tasks, calls)
		}
	case x < 88:
		shape = "one_api"
		a := api()
		for t := 0; t < nt; t++ {
			n := callCountDist[r.Intn(len(callCountDist))]
			var calls []simrt.Call
			for k := 0; k < n; k++ {
				calls = append(calls, mk(a, nonLong()))
			}
			spec.Tasks = append(spec.Tasks, calls)
		}
	case x < 94:
		shape = "panic_mix"
		for t := 0; t < nt; t++ {
			n := 2 + r.Intn(3)
			var calls []simrt.Call
			for k := 0; k < n; k++ {
				if r.Intn(3) == 0 && len(classes.panics) > 0 {
					calls = append(calls, mk(1, pick(r, classes.panics, nil)))
				} else {
					calls = append(calls, mk(api(), pick(r, classes.probe, classes.short)))
				}
			}
			spec.Tasks = append(spec.Tasks, calls)
		}
	default:
		shape = "long_vs_short"
		if nt < 2 {
			nt = 2
		}
		if nt > 4 {
			nt = 4
		}
		spec.Tasks = append(spec.Tasks, []simrt.Call{mk(api(), pick(r, classes.long, classes.all))})
		for t := 1; t < nt; t++ {
			n := 2 + r.Intn(6)
			var calls []simrt.Call
			for k := 0; k < n; k++ {
				calls = append(calls, mk(api(), pick(r, classes.short, classes.all)))
			}
			spec.Tasks = append(spec.Tasks, calls)
		}
	}
	for _, t := range spec.Tasks {
		for _, cl := range t {
			spec.Est += c.Steps[cl.API][cl.Idx] + 1
		}
	}

	// policy
	p := &spec.Policy
	x := r.Intn(100)
	if syncHeavy {
		// the library reaches sync stubs: interleavings at sync operations matter most
		switch {
		case x < 40:
			p.Kind = "sync"
			p.P = []float64{0.05, 0.1, 0.3, 0.5, 1.0}[r.Intn(5)]
		case x < 65:
			p.Kind = "pct"
			p.Depth = 1 + r.Intn(6)
		case x < 80:
			p.Kind = "walk"
			p.P = []float64{0.001, 0.003, 0.01, 0.03, 0.1, 0.3}[r.Intn(6)]
		case x < 90:
			p.Kind = "rr"
			p.Quantum = []int64{1, 2, 3, 5, 10, 50}[r.Intn(6)]
		default:
			p.Kind = "seq"
		}
	} else {
		switch {
		case x < 45:
			p.Kind = "pct"
			p.Depth = 1 + r.Intn(6)
		case x < 70:
			p.Kind = "walk"
			p.P = []float64{0.001, 0.003, 0.01, 0.03, 0.1, 0.3}[r.Intn(6)]
		case x < 82:
			p.Kind = "rr"
			p.Quantum = []int64{1, 2, 3, 5, 10, 50}[r.Intn(6)]
		case x < 90:
			p.Kind = "sync"
			p.P = []float64{0.1, 0.3, 0.5, 1.0}[r.Intn(4)]
		default:
			p.Kind = "seq"
		}
	}
	if cold && (p.Kind == "seq" || p.Kind == "sync" || (p.Kind == "walk" && p.P < 0.01) || (p.Kind == "pct" && p.Depth < 3)) {
		// the first run of a process always overlaps its first calls
		p.Kind = "walk"
		p.P = []float64{0.01, 0.03, 0.1}[r.Intn(3)]
	}
	p.PoolMode = []string{"lifo", "lifo", "lifo", "fifo", "random", "random"}[r.Intn(6)]
	p.PoolEvict = []float64{0, 0, 0.05, 0.15, 0.3}[r.Intn(5)]
	p.PoolCross = []float64{0, 0.2, 0.5, 1.0}[r.Intn(4)]
	p.ClockJumpP = []float64{0, 0.02, 0.1}[r.Intn(3)]
	p.TimerP = []float64{0, 0.001, 0.01, 0.05}[r.Intn(4)]
	p.GCP = []float64{0, 0, 0, 0.002, 0.01, 0.05}[r.Intn(6)]
	if shape == "two_long" || shape == "long_vs_short" {
		p.GCP = []float64{0.002, 0.01, 0.05}[r.Intn(3)]
		if p.Kind == "seq" || p.Kind == "sync" {
			p.Kind, p.P = "walk", 0.01
		}
	}
	return spec, shape
}
