// Package workerlib is the simulation worker: a race-built process linked
// against the INSTRUMENTED scratch copy of the library. It executes a session
// (a sequence of runs) under the deterministic scheduler and reports, as JSON
// lines on stdout, violations, a few sample runs and one summary.
//
// The worker never calls the library outside a simulated task, so the first
// library call of the process is made by simulated callers (cold start).
package workerlib

import (
	"bufio"
	"encoding/binary"
	"encoding/json"
	"fmt"
	"os"
	"runtime"
	"runtime/debug"
	"time"

	"verif/sim/common"
	"verif/sim/simrt"
)

// Session tells a worker process what to do.
type Session struct {
	Mode         string        `json:"mode"` // seqall | pairs | hist | rand | explicit
	Corpus       string        `json:"corpus"`
	Seed         uint64        `json:"seed"`
	Worker       int           `json:"worker"`
	Runs         int           `json:"runs"`
	From         int           `json:"from"`
	To           int           `json:"to"`
	SyncHeavy    bool          `json:"sync_heavy"`
	DumpExplicit bool          `json:"dump_explicit"`
	Explicit     []ExplicitRun `json:"explicit,omitempty"`
	DistinctPath string        `json:"distinct_path,omitempty"`
	SeqOut       string        `json:"seq_out,omitempty"`
	Samples      int           `json:"samples"`
	NSites       int           `json:"nsites"`
	StopOnViol   bool          `json:"stop_on_violation"`
	Variant      string        `json:"variant,omitempty"`   // which worker binary runs this session ("" = as shipped, "small" = capacity knobs shrunk)
	Words        []string      `json:"words,omitempty"`     // extra dictionary words (literals new relative to the baseline tree)
	SimProcs     int           `json:"sim_procs,omitempty"` // value runtime.GOMAXPROCS(0)/NumCPU() report to the library (VERIF_SIM_PROCS)
	SimEpoch     int64         `json:"sim_epoch,omitempty"` // simulated wall-clock ns at step 0 of the process (VERIF_SIM_EPOCH)
	StepNS       int64         `json:"step_ns,omitempty"`   // simulated ns per step (VERIF_SIM_STEPNS)
}

type ECall struct {
	API uint8  `json:"api"`
	Idx int32  `json:"idx"`
	In  string `json:"in"`  // base64
	Exp string `json:"exp"` // base64 expected (reference) result
}

// ExplicitRun is a run written out in full: the replay / minimisation unit.
type ExplicitRun struct {
	Seed   uint64       `json:"seed,omitempty"`
	Tasks  [][]ECall    `json:"tasks"`
	Policy simrt.Policy `json:"policy"`
	Trace  *simrt.Trace `json:"trace,omitempty"`
	Est    int64        `json:"est"`
	Note   string       `json:"note,omitempty"`
	Share  bool         `json:"share_inputs,omitempty"` // calls asking the same input get the very same string value
}

// Violation as reported by a worker.
type Violation struct {
	Kind     string       `json:"kind"` // race | mismatch | deadlock | noreturn
	RunIndex int          `json:"run_index"`
	Seed     uint64       `json:"seed"`
	Detail   string       `json:"detail"`
	Task     int          `json:"task"`
	Call     int          `json:"call"`
	API      uint8        `json:"api"`
	Got      string       `json:"got,omitempty"`
	Want     string       `json:"want,omitempty"`
	Run      *ExplicitRun `json:"run"`
	Results  [][]string   `json:"results,omitempty"`
}

type Summary struct {
	Mode          string                 `json:"mode"`
	Worker        int                    `json:"worker"`
	Runs          int64                  `json:"runs"`
	Calls         int64                  `json:"calls"`
	Steps         int64                  `json:"steps"`
	Switches      int64                  `json:"switches"`
	Faults        simrt.Faults           `json:"faults"`
	OverlapRuns   int64                  `json:"overlap_runs"`
	NontrivRuns   int64                  `json:"nontrivial_runs"`
	HistoryPairs  int64                  `json:"history_pairs"`
	ColdOverlap   int64                  `json:"cold_overlap"`
	PanicCalls    int64                  `json:"panic_calls"`
	Violations    int64                  `json:"violations"`
	RaceReports   int64                  `json:"race_reports"`
	SiteHits      []uint32               `json:"site_hits,omitempty"`
	SyncOps       map[string]int64       `json:"sync_ops"`
	PolicyRuns    map[string]int64       `json:"policy_runs"`
	GlobalsBefore uint64                 `json:"globals_before"`
	GlobalsAfter  uint64                 `json:"globals_after"`
	GlobalsDiff   []string               `json:"globals_changed,omitempty"`
	Spawned       int64                  `json:"spawned"`
	Leaked        int64                  `json:"leaked"`
	PoolItems     int                    `json:"pool_items"`
	WallMS        int64                  `json:"wall_ms"`
	SchedHashAll  uint64                 `json:"sched_hash_all"` // determinism self-test: hash over every run's schedule and results
	Aborted       string                 `json:"aborted,omitempty"`
	SimNS         int64                  `json:"sim_ns"`
	MaxProcs      int                    `json:"gomaxprocs"`
	ShapeRuns     map[string]int64       `json:"shape_runs"`
	CovEdgesBase  int                    `json:"cov_edges_base"`
	CovEdges      int                    `json:"cov_edges"`
	CovKept       int                    `json:"cov_kept"`
	DictSize      int                    `json:"dict_size"`
	InitHits      []uint32               `json:"init_hits,omitempty"`
	TasksHist     map[int]int64          `json:"tasks_hist"`
	extra         map[string]interface{} `json:"-"`
}

type out struct {
	w *bufio.Writer
}

func (o *out) emit(typ string, v interface{}) {
	b, err := json.Marshal(map[string]interface{}{"type": typ, "data": v})
	if err != nil {
		fmt.Fprintln(os.Stderr, "worker: marshal:", err)
		os.Exit(3)
	}
	o.w.Write(b)
	o.w.WriteByte('\n')
	o.w.Flush()
}

// Main runs the session named by os.Args[1].
func Main(isSQLi func(string) (bool, string), isXSS func(string) bool, globals func() []interface{}, globalNames []string) {
	if len(os.Args) < 2 {
		fmt.Fprintln(os.Stderr, "usage: worker <session.json>")
		os.Exit(3)
	}
	data, err := os.ReadFile(os.Args[1])
	if err != nil {
		fmt.Fprintln(os.Stderr, "worker:", err)
		os.Exit(3)
	}
	var ses Session
	if err := json.Unmarshal(data, &ses); err != nil {
		fmt.Fprintln(os.Stderr, "worker:", err)
		os.Exit(3)
	}
	var corpus *common.Corpus
	if ses.Corpus != "" {
		corpus, err = common.ReadCorpus(ses.Corpus)
		if err != nil {
			fmt.Fprintln(os.Stderr, "worker:", err)
			os.Exit(3)
		}
	}
	o := &out{w: bufio.NewWriterSize(os.Stdout, 1<<16)}
	w := &worker{ses: &ses, c: corpus, o: o}
	w.sum.Mode = ses.Mode
	w.sum.Worker = ses.Worker
	w.sum.PolicyRuns = map[string]int64{}
	w.sum.ShapeRuns = map[string]int64{}
	w.sum.TasksHist = map[int]int64{}
	w.sum.MaxProcs = runtime.GOMAXPROCS(0)
	if ses.DistinctPath != "" {
		f, err := os.Create(ses.DistinctPath)
		if err != nil {
			fmt.Fprintln(os.Stderr, "worker:", err)
			os.Exit(3)
		}
		w.distinct = bufio.NewWriterSize(f, 1<<16)
		defer func() { w.distinct.Flush(); f.Close() }()
	}

	exec := func(api uint8, in string) (res string, raw string) {
		defer func() {
			if r := recover(); r != nil {
				res, raw = common.EncPanic(r), ""
			}
		}()
		if api == simrt.APISQLi {
			ok, fp := isSQLi(in)
			return common.EncSQLi(ok, fp), fp
		}
		return common.EncXSS(isXSS(in)), ""
	}
	w.sim = simrt.NewSim(exec)
	// host pressure levels (heap, goroutines, GC cycles as the library sees them)
	// are seeded per run everywhere except where results are compared with the
	// shipped code run natively in a small quiet process
	w.sim.MemFaults = ses.Mode != "seqall" && ses.Mode != "cover"
	if ses.Mode != "cover" {
		// garbage collector seam: off, except where the scheduler forces a collection
		debug.SetGCPercent(-1)
		debug.SetMemoryLimit(3 << 30)
		simrt.GCFunc = runtime.GC
	}

	start := time.Now()
	var before []uint64
	if globals != nil {
		before = hashEach(globals())
		w.sum.GlobalsBefore = fold(before)
	}
	if ses.Mode == "cover" {
		w.modeCover(exec, globals)
	} else {
		w.runSession()
	}
	if globals != nil && w.sum.Aborted == "" {
		after := hashEach(globals())
		w.sum.GlobalsAfter = fold(after)
		for i := range after {
			if i < len(before) && before[i] != after[i] && i < len(globalNames) {
				w.sum.GlobalsDiff = append(w.sum.GlobalsDiff, globalNames[i])
			}
		}
	}
	w.sum.WallMS = time.Since(start).Milliseconds()
	if ses.NSites > 0 {
		w.sum.SiteHits = simrt.SiteHits(ses.NSites + 1)
		if ses.Mode == "seqall" {
			w.sum.InitHits = simrt.InitHits(ses.NSites + 1)
		}
	}
	sc := simrt.SyncCounts()
	w.sum.SyncOps = map[string]int64{}
	for i, n := range sc {
		if n > 0 {
			w.sum.SyncOps[simrt.OpNames[i]] = n
		}
	}
	w.sum.PoolItems = w.sim.PoolSizes()
	o.emit("summary", &w.sum)
	if w.distinct != nil {
		w.distinct.Flush()
	}
	// leave without running deferred race-runtime at-exit sleeps longer than needed
	os.Stdout.Sync()
}

type worker struct {
	ses      *Session
	c        *common.Corpus
	o        *out
	sim      *simrt.Sim
	sum      Summary
	distinct *bufio.Writer
	runIdx   int
	samples  int
	stop     bool
}

func (w *worker) runSession() {
	s := w.ses
	switch s.Mode {
	case "seqall":
		w.modeSeqAll()
	case "pairs":
		w.modePairs()
	case "hist":
		w.modeHist()
	case "family":
		w.modeFamily()
	case "repeat":
		w.modeRepeat()
	case "longpairs":
		w.modeLongPairs()
	case "solo":
		w.modeSolo()
	case "soak":
		w.modeSoak()
	case "coldfirst":
		w.modeColdFirst()
	case "chain":
		w.modeChain()
	case "hugefirst":
		w.modeHugeFirst()
	case "wrap":
		w.modeWrap()
	case "overlap":
		w.modeOverlap()
	case "stall":
		w.modeStall()
	case "retain":
		w.modeRetain()
	case "coldburst":
		w.modeColdBurst()
	case "rand":
		for i := 0; i < s.Runs && !w.stop; i++ {
			seed := simrt.Mix(s.Seed, uint64(s.Worker), uint64(i))
			spec, shape := genRun(w.c, seed, i == 0, s.SyncHeavy)
			w.sum.ShapeRuns[shape]++
			w.execRun(spec, nil, i == 0)
		}
	case "explicit":
		for i := range s.Explicit {
			if w.stop {
				break
			}
			er := &s.Explicit[i]
			spec, exp, err := specFromExplicit(er)
			if err != nil {
				fmt.Fprintln(os.Stderr, "worker:", err)
				os.Exit(3)
			}
			w.execRun(spec, exp, i == 0)
		}
	default:
		fmt.Fprintln(os.Stderr, "worker: unknown mode", s.Mode)
		os.Exit(3)
	}
}

func specFromExplicit(er *ExplicitRun) (*simrt.RunSpec, [][]string, error) {
	spec := &simrt.RunSpec{Seed: er.Seed, Policy: er.Policy, Trace: er.Trace, Est: er.Est, ShareInputs: er.Share}
	if spec.Policy.Kind == "explicit" && spec.Trace == nil {
		spec.Trace = &simrt.Trace{}
	}
	exp := make([][]string, len(er.Tasks))
	for _, t := range er.Tasks {
		var calls []simrt.Call
		for _, c := range t {
			in, err := common.UnB64(c.In)
			if err != nil {
				return nil, nil, err
			}
			calls = append(calls, simrt.Call{API: c.API, Idx: c.Idx, Input: in})
		}
		spec.Tasks = append(spec.Tasks, calls)
	}
	for i, t := range er.Tasks {
		for _, c := range t {
			e, err := common.UnB64(c.Exp)
			if err != nil {
				return nil, nil, err
			}
			exp[i] = append(exp[i], e)
		}
	}
	return spec, exp, nil
}

func (w *worker) explicitOf(spec *simrt.RunSpec, res *simrt.RunResult, exp [][]string) *ExplicitRun {
	er := &ExplicitRun{Seed: spec.Seed, Est: spec.Est, Policy: simrt.Policy{Kind: "explicit"}, Share: spec.ShareInputs}
	tr := res.Trace
	er.Trace = &tr
	er.Note = fmt.Sprintf("recorded from policy %+v", spec.Policy)
	for i, t := range spec.Tasks {
		var calls []ECall
		for j, c := range t {
			calls = append(calls, ECall{API: c.API, Idx: c.Idx, In: common.B64(c.Input), Exp: common.B64(exp[i][j])})
		}
		er.Tasks = append(er.Tasks, calls)
	}
	return er
}

func (w *worker) expected(spec *simrt.RunSpec) [][]string {
	exp := make([][]string, len(spec.Tasks))
	for i, t := range spec.Tasks {
		exp[i] = make([]string, len(t))
		for j, c := range t {
			if c.Idx >= 0 && w.c != nil {
				exp[i][j] = w.c.Ref[c.API][c.Idx]
			}
		}
	}
	return exp
}

func workloadHash(spec *simrt.RunSpec) uint64 {
	h := uint64(1469598103934665603)
	mix := func(v uint64) { h = (h ^ v) * 1099511628211 }
	for _, t := range spec.Tasks {
		mix(0xffff)
		for _, c := range t {
			mix(uint64(c.API) + 1)
			for k := 0; k < len(c.Input); k++ {
				mix(uint64(c.Input[k]))
			}
			mix(uint64(len(c.Input)))
		}
	}
	return h
}

// execRun runs one run and evaluates the oracles.
func (w *worker) execRun(spec *simrt.RunSpec, exp [][]string, first bool) *simrt.RunResult {
	if exp == nil {
		exp = w.expected(spec)
	}
	idx := w.runIdx
	w.runIdx++
	res := w.sim.Run(spec)
	s := &w.sum
	s.Runs++
	s.Steps += res.Steps
	s.Switches += res.Switches
	s.PolicyRuns[spec.Policy.Kind]++
	s.TasksHist[len(spec.Tasks)]++
	if first && res.Overlap {
		res.Faults.ColdStart++
		s.ColdOverlap++
	}
	s.Faults.Add(&res.Faults)
	s.Spawned += int64(res.Spawned)
	s.Leaked += int64(res.Leaked)
	multi := false
	for _, t := range spec.Tasks {
		s.Calls += int64(len(t))
		if len(t) >= 2 {
			multi = true
			s.HistoryPairs += int64(len(t) - 1)
		}
	}
	if res.Overlap {
		s.OverlapRuns++
	}
	wh := workloadHash(spec)
	if (res.Overlap && res.Faults.Preempt > 0) || multi {
		s.NontrivRuns++
		if w.distinct != nil {
			var b [8]byte
			binary.LittleEndian.PutUint64(b[:], simrt.Mix(wh, res.SchedHash, 7))
			w.distinct.Write(b[:])
		}
	}
	s.PanicCalls += res.Faults.CallerPanic
	// determinism hash: schedule + results of every run
	hh := simrt.Mix(s.SchedHashAll, wh, res.SchedHash)
	for _, tr := range res.Results {
		for _, r := range tr {
			for k := 0; k < len(r); k++ {
				hh = (hh ^ uint64(r[k])) * 1099511628211
			}
		}
	}
	s.SchedHashAll = simrt.Mix(hh, uint64(res.Steps), uint64(res.Switches))

	var er *ExplicitRun
	getER := func() *ExplicitRun {
		if er == nil {
			er = w.explicitOf(spec, res, exp)
		}
		return er
	}
	report := func(v *Violation) {
		v.RunIndex = idx
		v.Seed = spec.Seed
		v.Run = getER()
		v.Results = res.Results
		s.Violations++
		w.o.emit("violation", v)
		if w.ses.StopOnViol || s.Violations >= 6 {
			w.stop = true
		}
	}
	if res.RaceDelta > 0 {
		s.RaceReports += int64(res.RaceDelta)
		report(&Violation{Kind: "race", Detail: fmt.Sprintf("%d data race report(s) during this run", res.RaceDelta), Task: -1, Call: -1})
	}
	for k, mv := range res.Mutated {
		if k >= 2 {
			break
		}
		c := spec.Tasks[mv.Task][mv.Call]
		report(&Violation{Kind: "mutated", Task: mv.Task, Call: mv.Call, API: c.API, Got: mv.Later, Want: mv.AtReturn,
			Detail: fmt.Sprintf("the fingerprint returned by %s(%q) read %q when it was returned and %q at the end of the run: a value already handed to the caller changed", apiName(c.API), trunc(c.Input, 100), mv.AtReturn, trunc(mv.Later, 60))})
	}
	if res.Deadlock {
		report(&Violation{Kind: "deadlock", Detail: res.Detail, Task: -1, Call: -1})
		w.stop = true
		s.Aborted = "deadlock"
	} else if res.Starved {
		w.stop = true
		s.Aborted = "starved"
	} else if res.NoReturn {
		report(&Violation{Kind: "noreturn", Detail: res.Detail, Task: -1, Call: -1})
		w.stop = true
		s.Aborted = "noreturn"
	} else {
		nm := 0
		for i := range res.Results {
			for j, got := range res.Results[i] {
				if want := exp[i][j]; got != want && want != "" {
					nm++
					if nm <= 3 {
						c := spec.Tasks[i][j]
						report(&Violation{Kind: "mismatch", Task: i, Call: j, API: c.API, Got: got, Want: want,
							Detail: fmt.Sprintf("%s(%q) = %s, reference = %s", apiName(c.API), trunc(c.Input, 120), trunc(got, 80), trunc(want, 80))})
					}
				}
			}
		}
	}
	if w.ses.DumpExplicit {
		w.o.emit("run", getER())
	}
	if w.samples < w.ses.Samples && ((len(spec.Tasks) >= 2 && res.Faults.Preempt > 0) || w.ses.Mode != "rand") && len(res.Trace.Segs) <= 40 {
		small := true
		for _, t := range spec.Tasks {
			for _, c := range t {
				if len(c.Input) > 200 {
					small = false
				}
			}
			if len(t) > 6 {
				small = false
			}
		}
		if small {
			w.samples++
			w.o.emit("sample", map[string]interface{}{"run_index": idx, "seed": spec.Seed, "policy": spec.Policy, "run": getER(), "results": res.Results,
				"steps": res.Steps, "switches": res.Switches, "faults": res.Faults})
		}
	}
	return res
}

func apiName(a uint8) string {
	if a == simrt.APISQLi {
		return "IsSQLi"
	}
	return "IsXSS"
}

func trunc(s string, n int) string {
	if len(s) > n {
		return s[:n] + "..."
	}
	return s
}

// ---------------------------------------------------------------- systematic modes

// modeSeqAll: one task evaluates the whole corpus in order (both APIs): the
// instrumented-vs-shipped equivalence stage, and the source of fault-free step counts.
func (w *worker) modeSeqAll() {
	n := w.c.Len()
	const chunk = 2000
	f, err := os.Create(w.ses.SeqOut)
	if err != nil {
		fmt.Fprintln(os.Stderr, "worker:", err)
		os.Exit(3)
	}
	bw := bufio.NewWriterSize(f, 1<<20)
	for a := 0; a < n; a += chunk {
		b := a + chunk
		if b > n {
			b = n
		}
		var calls []simrt.Call
		for i := a; i < b; i++ {
			calls = append(calls, simrt.Call{API: 0, Idx: int32(i), Input: w.c.In[i]}, simrt.Call{API: 1, Idx: int32(i), Input: w.c.In[i]})
		}
		spec := &simrt.RunSpec{Seed: 1, Tasks: [][]simrt.Call{calls}, Policy: simrt.Policy{Kind: "seq"}, Est: 1 << 40}
		exp := make([][]string, 1)
		exp[0] = make([]string, len(calls))
		res := w.sim.Run(spec) // no oracle here: the driver compares with the reference
		w.sum.Runs++
		w.sum.Steps += res.Steps
		w.sum.Calls += int64(len(calls))
		w.sum.Spawned += int64(res.Spawned)
		if res.RaceDelta > 0 {
			// a single caller, nothing scheduled: only the library's own goroutines
			// can race here (or the harness is visible to the detector; the driver
			// tells the two apart by the report's stacks)
			w.sum.RaceReports += int64(res.RaceDelta)
			if w.sum.Violations < 3 {
				w.sum.Violations++
				exp := w.expected(spec)
				w.o.emit("violation", &Violation{Kind: "race", RunIndex: w.runIdx, Seed: spec.Seed, Task: -1, Call: -1,
					Detail: fmt.Sprintf("%d data race report(s) during a single-caller sequential pass", res.RaceDelta), Run: w.explicitOf(spec, res, exp)})
			}
		}
		w.runIdx++
		for k := 0; k < len(calls); k += 2 {
			fmt.Fprintf(bw, "%s\t%d\t%s\t%d\n", common.B64(res.Results[0][k]), res.CallSteps[0][k], common.B64(res.Results[0][k+1]), res.CallSteps[0][k+1])
		}
	}
	bw.Flush()
	f.Close()
}

// modePairs: same-input pair sweep. Two tasks make the same calls; no
// preemption is needed: the race oracle orders by vector clocks, not timing.
func (w *worker) modePairs() {
	const batch = 8
	for a := w.ses.From; a < w.ses.To && !w.stop; a += batch {
		b := a + batch
		if b > w.ses.To {
			b = w.ses.To
		}
		var calls []simrt.Call
		var est int64
		for i := a; i < b; i++ {
			calls = append(calls, simrt.Call{API: 0, Idx: int32(i), Input: w.c.In[i]}, simrt.Call{API: 1, Idx: int32(i), Input: w.c.In[i]})
			est += w.c.Steps[0][i] + w.c.Steps[1][i]
		}
		c2 := append([]simrt.Call(nil), calls...)
		// every other batch: both tasks pass the very same string values
		spec := &simrt.RunSpec{Seed: uint64(a), Tasks: [][]simrt.Call{calls, c2}, Policy: simrt.Policy{Kind: "seq", PoolMode: "lifo"}, Est: 2*est + 64, ShareInputs: (a/batch)%2 == 1}
		w.execRun(spec, nil, a == w.ses.From)
	}
}

// HistPair enumerates the (residue, probe, api) triples of the history sweep.
func HistLists(c *common.Corpus) (reps, probes []int32) {
	for i, f := range c.Flags {
		if f&common.FRep != 0 {
			reps = append(reps, int32(i))
		}
		if f&common.FProbe != 0 {
			probes = append(probes, int32(i))
		}
	}
	return
}

// modeHist: residue x probe history sweep, one task, sequential, pool LIFO
// (the same object comes back: the likeliest leak path of a reused scanner).
// Index k in [From,To) enumerates reps x probes x {SQLi,XSS}.
func (w *worker) modeHist() {
	reps, probes := HistLists(w.c)
	if len(reps) == 0 || len(probes) == 0 {
		return
	}
	P := len(probes)
	const pairsPerRun = 128
	for a := w.ses.From; a < w.ses.To && !w.stop; a += pairsPerRun {
		b := a + pairsPerRun
		if b > w.ses.To {
			b = w.ses.To
		}
		var calls []simrt.Call
		var est int64
		for k := a; k < b; k++ {
			api := uint8(k & 1)
			q := k >> 1
			r := reps[(q/P)%len(reps)]
			p := probes[q%P]
			calls = append(calls, simrt.Call{API: api, Idx: r, Input: w.c.In[r]}, simrt.Call{API: api, Idx: p, Input: w.c.In[p]})
			est += w.c.Steps[api][r] + w.c.Steps[api][p]
		}
		pol := simrt.Policy{Kind: "seq", PoolMode: "lifo"}
		if (a/pairsPerRun)%2 == 1 {
			pol.GCP = 0.02 // every other batch: the garbage of earlier calls is collected between calls
		}
		spec := &simrt.RunSpec{Seed: uint64(a), Tasks: [][]simrt.Call{calls}, Policy: pol, Est: est + 64}
		w.execRun(spec, nil, false)
	}
}

// Families lists, per token family, the corpus indices of its members.
func Families(c *common.Corpus) [][]int32 {
	by := map[int32][]int32{}
	var ids []int32
	for i := range c.In {
		if g := c.GroupOf(i); g > 0 {
			if _, ok := by[g]; !ok {
				ids = append(ids, g)
			}
			by[g] = append(by[g], int32(i))
		}
	}
	out := make([][]int32, 0, len(ids))
	for _, g := range ids {
		out = append(out, by[g])
	}
	return out
}

// modeFamily: token-family sweep. For each family (one word placed in every
// SQLi and XSS syntactic position) a single task asks API1 on all members,
// then API2 on all members, then API1 again: state keyed by a shared token
// that leaks from one detector (or one position) to the other shows as a
// mismatch against the fresh reference. Seed parity selects which API goes first.
func (w *worker) modeFamily() {
	fams := Families(w.c)
	for k := w.ses.From; k < w.ses.To && k < len(fams) && !w.stop; k++ {
		first := uint8((w.ses.Seed + uint64(w.ses.Worker)) & 1)
		var calls []simrt.Call
		var est int64
		// pass 0: first API, members in order; pass 1: other API; pass 2/3: the
		// same in reversed member order (every adjacent pair is seen in both orders)
		for pass := 0; pass < 4; pass++ {
			api := first
			if pass&1 == 1 {
				api = 1 - first
			}
			fam := fams[k]
			for x := range fam {
				m := fam[x]
				if pass >= 2 {
					m = fam[len(fam)-1-x]
				}
				calls = append(calls, simrt.Call{API: api, Idx: m, Input: w.c.In[m]})
				est += w.c.Steps[api][m] + 1
			}
		}
		spec := &simrt.RunSpec{Seed: uint64(k), Tasks: [][]simrt.Call{calls}, Policy: simrt.Policy{Kind: "seq", PoolMode: "lifo"}, Est: est + 64}
		w.execRun(spec, nil, false)
	}
}

// modeRepeat: repetition sweep. Every probe (index range [From,To) over the
// probe list) is asked Runs times in a row by one task, on each API, then a
// few other probes are asked once: an answer that changes with the number of
// times it was asked (adaptive fast paths, promotion counters, trip wires)
// shows as a mismatch.
func (w *worker) modeRepeat() {
	_, probes := HistLists(w.c)
	reps := w.ses.Runs
	if reps < 2 {
		reps = 2
	}
	for k := w.ses.From; k < w.ses.To && k < len(probes) && !w.stop; k++ {
		for api := uint8(0); api < 2 && !w.stop; api++ {
			p := probes[k]
			var calls []simrt.Call
			var est int64
			for i := 0; i < reps; i++ {
				calls = append(calls, simrt.Call{API: api, Idx: p, Input: w.c.In[p]})
			}
			est = int64(reps) * (w.c.Steps[api][p] + 1)
			for _, q := range probes {
				// every probe once afterwards: a verdict frozen for a whole class of
				// inputs (same fingerprint, same token, same prefix) shows on its siblings
				calls = append(calls, simrt.Call{API: api, Idx: q, Input: w.c.In[q]})
				est += w.c.Steps[api][q] + 1
			}
			spec := &simrt.RunSpec{Seed: uint64(k)*2 + uint64(api), Tasks: [][]simrt.Call{calls}, Policy: simrt.Policy{Kind: "seq", PoolMode: "lifo"}, Est: est + 64}
			w.execRun(spec, nil, false)
		}
	}
}

// LongList lists the corpus indices of the long inputs.
func LongList(c *common.Corpus) []int32 {
	var out []int32
	for i, f := range c.Flags {
		if f&common.FLong != 0 && f&common.FHuge == 0 {
			out = append(out, int32(i))
		}
	}
	return out
}

// HugeList lists the huge inputs.
func HugeList(c *common.Corpus) []int32 {
	var out []int32
	for i, f := range c.Flags {
		if f&common.FHuge != 0 {
			out = append(out, int32(i))
		}
	}
	return out
}

// modeLongPairs: every ordered pair of long inputs, on each API, as a
// two-call history of one task (code paths that only switch on above a length
// threshold - worker pools, watchdogs, chunking - are only reached by these).
// Index k in [From,To) enumerates L x L x {SQLi,XSS}.
func (w *worker) modeLongPairs() {
	ls := LongList(w.c)
	L := len(ls)
	if L == 0 {
		return
	}
	_, probes := HistLists(w.c)
	stride := 1
	if w.ses.Runs > 1 {
		stride = w.ses.Runs // quick tier: every Runs-th ordered pair (offset by the seed)
	}
	for k := w.ses.From + int(w.ses.Seed%uint64(stride)); k < w.ses.To && !w.stop; k += stride {
		api := uint8((k / stride) & 1)
		q := k >> 1
		a, b := ls[(q/L)%L], ls[q%L]
		// every probe is asked after each long call: what a long call leaves
		// behind (a budget flag, a grown buffer, a tripped breaker) shows on
		// ordinary inputs, not on the next long one
		calls := []simrt.Call{{API: api, Idx: a, Input: w.c.In[a]}}
		est := w.c.Steps[api][a] + w.c.Steps[api][b] + 2
		for rep := 0; rep < 2; rep++ {
			for _, p := range probes {
				calls = append(calls, simrt.Call{API: api, Idx: p, Input: w.c.In[p]})
				est += w.c.Steps[api][p] + 1
			}
			if rep == 0 {
				calls = append(calls, simrt.Call{API: api, Idx: b, Input: w.c.In[b]})
			}
		}
		pol := simrt.Policy{Kind: "seq", PoolMode: "lifo"}
		if w.ses.SyncHeavy {
			// the library reaches stubs (pools, goroutines, channels, timers): let its
			// own goroutines interleave with the caller in a seeded way
			pol = simrt.Policy{Kind: []string{"seq", "walk", "rr", "pct"}[k%4], P: 0.02, Quantum: 7, Depth: 3, PoolMode: "lifo", TimerP: 0.01, GCP: 0.01}
		}
		spec := &simrt.RunSpec{Seed: simrt.Mix(w.ses.Seed, uint64(k), 5), Tasks: [][]simrt.Call{calls}, Policy: pol, Est: est + 64}
		w.execRun(spec, nil, false)
	}
}

// modeSolo: one caller, one call, several seeded policies: the interleavings
// of the library's OWN goroutines (worker pools, helpers, timers) with the
// caller. Index k in [From,To) enumerates inputs(>=500 B) x 2 APIs x 6 policies.
func (w *worker) modeSolo() {
	var idx []int32
	for i, in := range w.c.In {
		if len(in) >= 500 {
			idx = append(idx, int32(i))
		}
	}
	pols := []simrt.Policy{
		{Kind: "walk", P: 0.01}, {Kind: "walk", P: 0.1}, {Kind: "pct", Depth: 3}, {Kind: "pct", Depth: 5}, {Kind: "rr", Quantum: 3}, {Kind: "sync", P: 0.5},
	}
	for k := w.ses.From; k < w.ses.To && !w.stop; k++ {
		in := idx[(k/12)%len(idx)]
		api := uint8((k / 6) & 1)
		pol := pols[k%6]
		pol.PoolMode, pol.TimerP = "lifo", 0.005
		calls := []simrt.Call{{API: api, Idx: in, Input: w.c.In[in]}}
		spec := &simrt.RunSpec{Seed: simrt.Mix(w.ses.Seed, uint64(k), 11), Tasks: [][]simrt.Call{calls}, Policy: pol, Est: w.c.Steps[api][in] + 64}
		w.execRun(spec, nil, false)
	}
}

// modeSoak: one long-lived process, one caller, Runs calls in total: first
// one probe asked 70 000 times (16-bit counters wrap), then every short corpus
// input in a seeded order on alternating APIs with a few probes re-asked all
// the time. Thresholds on accumulated quantities (calls, bytes, distinct
// keys, distinct fingerprints) are only reached by processes that live long.
func (w *worker) modeSoak() {
	_, probes := HistLists(w.c)
	if len(probes) == 0 {
		return
	}
	r := simrt.NewRNG(simrt.Mix(w.ses.Seed, uint64(w.ses.Worker), 0x50a4))
	var short []int32
	for i, in := range w.c.In {
		if len(in) <= 200 && w.c.Flags[i]&common.FLong == 0 {
			short = append(short, int32(i))
		}
	}
	for i := len(short) - 1; i > 0; i-- {
		j := r.Intn(i + 1)
		short[i], short[j] = short[j], short[i]
	}
	// the hot probe: a POSITIVE of the hot API (a degraded or frozen path most
	// likely answers "no"), a different one for every soak process
	hotAPI := uint8(w.ses.Worker & 1)
	var pos []int32
	for _, p := range probes {
		if ref := w.c.Ref[hotAPI][p]; len(ref) > 0 && ref[0] == 'T' {
			pos = append(pos, p)
		}
	}
	if len(pos) == 0 {
		pos = probes
	}
	hot := pos[(w.ses.Worker/2)%len(pos)]
	hot2 := pos[(w.ses.Worker/2+1)%len(pos)]
	if w.ses.Worker%4 < 2 {
		hot2 = hot // half of the soak workers hammer a single input
	}
	const perRun = 5000
	// burst phase: every positive probe of the hot API 3000 times in a row (token
	// buckets, per-key counters and adaptive fast paths react to bursts)
	if w.ses.Worker < 8 {
		// candidates: positive probes and literals of the hot API, shared out
		// between the four burst workers of that API
		cand := BurstCandidates(w.c, hotAPI)
		after := BurstAfterList(w.c, cand)
		var mine []int32
		for k, p := range cand {
			if k%4 == (w.ses.Worker/2)%4 {
				mine = append(mine, p)
			}
		}
		for _, p := range mine {
			if w.stop {
				break
			}
			calls := make([]simrt.Call, 0, 1500+len(after))
			for k := 0; k < 1500; k++ {
				calls = append(calls, simrt.Call{API: hotAPI, Idx: p, Input: w.c.In[p]})
			}
			est := 1500 * (w.c.Steps[hotAPI][p] + 1)
			// ... then every candidate and every short splice once: whatever the burst
			// taught the library (prevailing context, frozen verdicts, tripped breakers)
			// shows on its siblings
			for _, q := range after {
				calls = append(calls, simrt.Call{API: hotAPI, Idx: q, Input: w.c.In[q]})
				est += w.c.Steps[hotAPI][q] + 1
			}
			spec := &simrt.RunSpec{Seed: uint64(p), Tasks: [][]simrt.Call{calls}, Policy: simrt.Policy{Kind: "seq", PoolMode: "lifo"}, Est: est + 64}
			w.execRun(spec, nil, false)
		}
	}
	done := 0
	cur := 0
	for done < w.ses.Runs && !w.stop {
		var calls []simrt.Call
		var est int64
		for k := 0; k < perRun && done < w.ses.Runs; k++ {
			var idx int32
			api := uint8((done + w.ses.Worker) & 1)
			switch {
			case done < 70000:
				// two positives alternate: counters that ignore an immediate repetition still advance
				idx, api = hot, hotAPI
				if done&1 == 1 {
					idx = hot2
				}
			case k%16 == 0:
				idx = probes[(done/16)%len(probes)]
			default:
				idx = short[cur%len(short)]
				cur++
			}
			calls = append(calls, simrt.Call{API: api, Idx: idx, Input: w.c.In[idx]})
			est += w.c.Steps[api][idx] + 1
			done++
		}
		spec := &simrt.RunSpec{Seed: uint64(done), Tasks: [][]simrt.Call{calls}, Policy: simrt.Policy{Kind: "seq", PoolMode: "lifo"}, Est: est + 64}
		w.execRun(spec, nil, false)
	}
}

// ColdFirstList: inputs worth being the very FIRST call of a process: every
// input on which the current tree panics, then long inputs, then a spread of others.
func ColdFirstList(c *common.Corpus) []int32 {
	var out []int32
	seen := map[int32]bool{}
	add := func(i int32) {
		if !seen[i] {
			seen[i] = true
			out = append(out, i)
		}
	}
	for i := range c.In {
		if (len(c.Ref[0][i]) > 0 && c.Ref[0][i][0] == 'P') || (len(c.Ref[1][i]) > 0 && c.Ref[1][i][0] == 'P') {
			add(int32(i))
		}
		if len(out) >= 24 {
			break
		}
	}
	n := 0
	for i, f := range c.Flags {
		if f&common.FLong != 0 && n < 8 {
			add(int32(i))
			n++
		}
	}
	for i := 0; i < c.Len() && len(out) < 48; i += 1 + c.Len()/17 {
		add(int32(i))
	}
	return out
}

// modeColdFirst: the process's very first library call is input From of the
// cold-first list (on API Runs&1); then every probe is asked on both APIs.
// A table that is built lazily inside a call that panics, or that the first
// caller leaves half-initialised, shows on the ordinary calls that follow.
func (w *worker) modeColdFirst() {
	list := ColdFirstList(w.c)
	if w.ses.From >= len(list) {
		return
	}
	_, probes := HistLists(w.c)
	x := list[w.ses.From]
	api := uint8(w.ses.Runs & 1)
	calls := []simrt.Call{{API: api, Idx: x, Input: w.c.In[x]}}
	est := w.c.Steps[api][x] + 1
	for _, a := range []uint8{api, 1 - api} {
		for _, p := range probes {
			calls = append(calls, simrt.Call{API: a, Idx: p, Input: w.c.In[p]})
			est += w.c.Steps[a][p] + 1
		}
	}
	spec := &simrt.RunSpec{Seed: uint64(w.ses.From), Tasks: [][]simrt.Call{calls}, Policy: simrt.Policy{Kind: "seq", PoolMode: "lifo"}, Est: est + 64}
	w.execRun(spec, nil, true)
}

// modeChain: one caller walks through every medium-sized corpus input (24 to
// 400 bytes: fixtures, literals, splices, mutated) in a seeded order on one
// API, under a seeded policy with GC and timer faults. Chains of consecutive
// calls that are all "interesting" (contain quotes, are positive, cross small
// thresholds) are what slot-reuse and late-write bugs of helper goroutines need.
// Worker index selects API, order and policy; From/To bound the chain length.
func (w *worker) modeChain() {
	var pool []int32
	for i, in := range w.c.In {
		if len(in) >= 24 && len(in) <= 400 && w.c.Flags[i]&(common.FFixture|common.FLiteral|common.FMutated|common.FGrown) != 0 {
			pool = append(pool, int32(i))
		}
	}
	if len(pool) == 0 {
		return
	}
	r := simrt.NewRNG(simrt.Mix(w.ses.Seed, uint64(w.ses.Worker), 0xc4a1))
	for i := len(pool) - 1; i > 0; i-- {
		j := r.Intn(i + 1)
		pool[i], pool[j] = pool[j], pool[i]
	}
	api := uint8(w.ses.Worker & 1)
	pols := []simrt.Policy{{Kind: "seq"}, {Kind: "walk", P: 0.02}, {Kind: "pct", Depth: 4}, {Kind: "rr", Quantum: 5}, {Kind: "walk", P: 0.2}, {Kind: "sync", P: 0.3}}
	const perRun = 400
	for a := 0; a < len(pool) && a < w.ses.To && !w.stop; a += perRun {
		b := a + perRun
		if b > len(pool) {
			b = len(pool)
		}
		var calls []simrt.Call
		var est int64
		for _, i := range pool[a:b] {
			calls = append(calls, simrt.Call{API: api, Idx: i, Input: w.c.In[i]})
			est += w.c.Steps[api][i] + 1
		}
		pol := pols[(w.ses.Worker/2+a/perRun)%len(pols)]
		pol.PoolMode, pol.GCP, pol.TimerP = "lifo", 0.002, 0.002
		spec := &simrt.RunSpec{Seed: simrt.Mix(w.ses.Seed, uint64(w.ses.Worker), uint64(a)), Tasks: [][]simrt.Call{calls}, Policy: pol, Est: est + 64}
		w.execRun(spec, nil, a == 0)
	}
}

// modeHugeFirst: huge input From (API Runs&1) is asked once by one task; then
// three runs of two tasks asking the same sixteen probes follow. A buffer that
// grew, was trimmed, double-released or pinned by the huge call shows as a
// race or a wrong answer on ordinary calls.
func (w *worker) modeHugeFirst() {
	hs := HugeList(w.c)
	if w.ses.From >= len(hs) {
		return
	}
	_, probes := HistLists(w.c)
	h := hs[w.ses.From]
	api := uint8(w.ses.Runs & 1)
	spec := &simrt.RunSpec{Seed: 1, Tasks: [][]simrt.Call{{{API: api, Idx: h, Input: w.c.In[h]}}}, Policy: simrt.Policy{Kind: "seq", PoolMode: "lifo"}, Est: w.c.Steps[api][h] + 64}
	w.execRun(spec, nil, true)
	for r := 0; r < 3 && !w.stop; r++ {
		var calls []simrt.Call
		var est int64
		for k := 0; k < 16 && k < len(probes); k++ {
			p := probes[(r*16+k*5)%len(probes)]
			calls = append(calls, simrt.Call{API: api, Idx: p, Input: w.c.In[p]})
			est += w.c.Steps[api][p] + 1
		}
		c2 := append([]simrt.Call(nil), calls...)
		pol := simrt.Policy{Kind: []string{"seq", "walk", "rr"}[r], P: 0.05, Quantum: 3, PoolMode: "lifo", GCP: 0.01}
		sp := &simrt.RunSpec{Seed: uint64(r + 2), Tasks: [][]simrt.Call{calls, c2}, Policy: pol, Est: 2*est + 64}
		w.execRun(sp, nil, false)
	}
}

// OverlapList: the inputs of the self-overlap sweep: long inputs, probes, unusual byte classes.
func OverlapList(c *common.Corpus) []int32 {
	var out []int32
	for i, f := range c.Flags {
		if (f&common.FLong != 0 && f&common.FHuge == 0) || f&(common.FProbe|common.FOdd) != 0 {
			out = append(out, int32(i))
		}
	}
	return out
}

// modeOverlap: self-overlap sweep. Two tasks ask the same input X; task 1 is
// parked right after its d-th synchronisation request (an in-flight counter
// incremented, a buffer taken, a lock released), task 0 then makes the whole
// call, then task 1 finishes. d = 1, 2, 3, ... until task 1 finishes before its
// d-th request. Both are inside the same code paths by construction, which
// is what load-dependent behaviour (shared arenas split between the callers in
// flight, shedding, degraded paths) needs. Index k in [From,To) enumerates
// OverlapList x {SQLi,XSS}.
func (w *worker) modeOverlap() {
	list := OverlapList(w.c)
	for k := w.ses.From; k < w.ses.To && k < 2*len(list) && !w.stop; k++ {
		x := list[k/2]
		api := uint8(k & 1)
		for _, d := range []int{1, 2, 3, 4, 5, 6, 8, 11, 15, 20} {
			if w.stop {
				break
			}
			c := simrt.Call{API: api, Idx: x, Input: w.c.In[x]}
			spec := &simrt.RunSpec{Seed: uint64(k)*32 + uint64(d), Tasks: [][]simrt.Call{{c}, {c}}, Policy: simrt.Policy{Kind: "overlap", Depth: d, PoolMode: "lifo"}, Est: 2*w.c.Steps[api][x] + 64, ShareInputs: (k/2)%2 == 1}
			res := w.execRun(spec, nil, false)
			if res == nil || !res.Parked {
				break
			}
		}
	}
}

// modeStall: long-stall sweep. Task 1 begins a call on X and is parked right
// before its d-th synchronisation request; task 0 then makes 1200 calls on a
// seeded, diverse sample of the corpus (enough to rotate generations, fill and
// evict caches, republish tables, wrap small rings); then task 1 goes on with
// whatever it had loaded before it was parked. d = 1, 2, ... until task 1
// finishes first. A request goroutine descheduled for a long time (a GC pause,
// a loaded machine) while traffic continues is exactly this. Index k in
// [From,To) enumerates a seeded list of X (probes first) x {SQLi,XSS}.
func (w *worker) modeStall() {
	_, probes := HistLists(w.c)
	var pool []int32
	for i, f := range w.c.Flags {
		if f&(common.FLong|common.FHuge) == 0 && len(w.c.In[i]) > 0 {
			pool = append(pool, int32(i))
		}
	}
	if len(probes) == 0 || len(pool) == 0 {
		return
	}
	r := simrt.NewRNG(w.ses.Seed ^ 0x57a11)
	for k := w.ses.From; k < w.ses.To && !w.stop; k++ {
		api := uint8(k & 1)
		x := probes[(k/2)%len(probes)]
		if (k/2)/len(probes)%2 == 1 {
			x = pool[r.Intn(len(pool))]
		}
		var traffic []simrt.Call
		var est int64
		for i := 0; i < 1200; i++ {
			j := pool[r.Intn(len(pool))]
			a := api
			if k&2 != 0 && i&1 == 1 {
				a = 1 - api // every other stall: mixed traffic on both detectors
			}
			traffic = append(traffic, simrt.Call{API: a, Idx: j, Input: w.c.In[j]})
			est += w.c.Steps[a][j] + 1
		}
		for d := 1; d <= 12 && !w.stop; d++ {
			c := simrt.Call{API: api, Idx: x, Input: w.c.In[x]}
			spec := &simrt.RunSpec{Seed: uint64(k)*32 + uint64(d), Tasks: [][]simrt.Call{traffic, {c}}, Policy: simrt.Policy{Kind: "overlap", Depth: d, PoolMode: "lifo"}, Est: est + w.c.Steps[api][x] + 64}
			res := w.execRun(spec, nil, false)
			if res == nil || !res.Parked {
				break
			}
		}
	}
}

// modeRetain: retention sweep. One caller makes 2600 calls cycling through the
// positive probes and literals of the API (seeded order, Runs = variant), with
// a collection forced eight times along the way (finalizers run as tasks); every
// returned fingerprint is kept, as a WAF keeps it in transaction variables and
// audit records, and re-read at the end of the run. Arenas, chunked buffers and
// zero-copy results that are recycled once their owner is collected or rolled
// over show here and nowhere else: the answer is right when it is returned.
func (w *worker) modeRetain() {
	api := uint8(w.ses.From & 1)
	cand := BurstCandidates(w.c, api)
	if len(cand) == 0 {
		return
	}
	r := simrt.NewRNG(w.ses.Seed ^ uint64(0x2e7a1+w.ses.Runs))
	calls := make([]simrt.Call, 0, 2600)
	var est int64
	for k := 0; k < 2600; k++ {
		i := cand[(k+r.Intn(3))%len(cand)]
		calls = append(calls, simrt.Call{API: api, Idx: i, Input: w.c.In[i]})
		est += w.c.Steps[api][i] + 1
	}
	tasks := [][]simrt.Call{calls}
	if w.ses.Runs&1 == 1 {
		// variant: two callers, half the history each
		tasks = [][]simrt.Call{calls[:1300], calls[1300:]}
	}
	pol := simrt.Policy{Kind: "seq", PoolMode: "lifo", GCEvery: est/8 + 1}
	if w.ses.Runs&1 == 1 {
		pol.Kind, pol.Quantum = "rr", 200
	}
	spec := &simrt.RunSpec{Seed: uint64(w.ses.Runs)*2 + uint64(api), Tasks: tasks, Policy: pol, Est: est + 64}
	w.execRun(spec, nil, true)
}

// WrapPeriods are the distances at which a narrow counter, epoch or
// generation number (uint8, uint16) comes round again.
var WrapPeriods = []int{255, 256, 65535, 65536}

// WrapPairs: pairs of family members of equal length that differ in one or
// two bytes and have different reference results on the API (a word and its
// near-miss spelling in the same syntactic position): what is remembered about
// one and wrongly applied to the other flips the answer. At most 3 per family, 240 in all.
func WrapPairs(c *common.Corpus, api uint8) (a, b []int32) {
	for _, fam := range Families(c) {
		got := 0
		for i := 0; i < len(fam) && got < 3; i++ {
			x := c.In[fam[i]]
			if len(x) > 80 {
				continue
			}
			for j := i + 1; j < len(fam) && j < i+14; j++ {
				y := c.In[fam[j]]
				if len(y) != len(x) || c.Ref[api][fam[i]] == c.Ref[api][fam[j]] {
					continue
				}
				d := 0
				for k := 0; k < len(x) && d < 3; k++ {
					if x[k] != y[k] {
						d++
					}
				}
				if d >= 1 && d <= 2 {
					a, b = append(a, fam[i]), append(b, fam[j])
					got++
					break
				}
			}
		}
		if len(a) >= 240 {
			break
		}
	}
	return
}

// modeWrap: exact-distance histories, one pair per run: the first member, a
// cheap filler until call N, the second member - exactly N calls after its
// partner - filler again and the first member again (the reverse direction).
// N = WrapPeriods[Runs>>1], API = Runs&1, pairs [From,To). A slot stamped with a
// narrow epoch, a generation byte, a sequence number compared modulo 2^8 or
// 2^16 is valid again at exactly this distance and at no other. (One pair per
// run: members of other pairs share syntactic positions and would overwrite
// what the first member left behind.)
func (w *worker) modeWrap() {
	api := uint8(w.ses.Runs & 1)
	n := WrapPeriods[(w.ses.Runs>>1)%len(WrapPeriods)]
	a, b := WrapPairs(w.c, api)
	// filler: the cheapest non-empty input that is neither positive nor panicking on this API
	fill := int32(-1)
	for i, in := range w.c.In {
		if len(in) == 0 || len(in) > 8 {
			continue
		}
		if ref := w.c.Ref[api][i]; len(ref) == 0 || ref[0] != 'F' {
			continue
		}
		if fill < 0 || w.c.Steps[api][i] < w.c.Steps[api][fill] {
			fill = int32(i)
		}
	}
	if fill < 0 {
		return
	}
	for k := w.ses.From; k < w.ses.To && k < len(a) && !w.stop; k++ {
		calls := make([]simrt.Call, 0, 2*n+1)
		var est int64
		add := func(i int32) {
			calls = append(calls, simrt.Call{API: api, Idx: i, Input: w.c.In[i]})
			est += w.c.Steps[api][i] + 1
		}
		for round := 0; round < 3; round++ {
			if round == 1 {
				add(b[k])
			} else {
				add(a[k])
			}
			for f := 1; f < n && round < 2; f++ {
				add(fill)
			}
		}
		spec := &simrt.RunSpec{Seed: uint64(n)*1024 + uint64(k)*2 + uint64(api), Tasks: [][]simrt.Call{calls}, Policy: simrt.Policy{Kind: "seq", PoolMode: "lifo"}, Est: est + 64}
		w.execRun(spec, nil, k == w.ses.From)
	}
}

// BurstCandidates: positive probes and literals (<= 64 bytes) of an API.
func BurstCandidates(c *common.Corpus, api uint8) []int32 {
	var cand []int32
	for i, f := range c.Flags {
		if f&(common.FProbe|common.FLiteral) != 0 && len(c.In[i]) <= 64 {
			if ref := c.Ref[api][i]; len(ref) > 0 && ref[0] == 'T' {
				cand = append(cand, int32(i))
			}
		}
	}
	return cand
}

// BurstAfterList: what is asked once after a burst: short splices first (they
// are positive in several parsing contexts, so they show a changed preference
// before ordinary traffic can undo it), then all candidates.
func BurstAfterList(c *common.Corpus, cand []int32) []int32 {
	var after []int32
	for i, f := range c.Flags {
		if f&common.FSplice != 0 && len(c.In[i]) <= 120 && len(after) < 500 {
			after = append(after, int32(i))
		}
	}
	return append(after, cand...)
}

// modeColdBurst: a fresh process is taught ONE thing intensely - candidate
// From of API Runs&1 asked 1500 times in a row on a fast clock - and then
// probed with every splice and every candidate once. Adaptive heuristics,
// prevailing-context preferences, first-seen orders, frozen verdicts and
// token buckets all react to exactly this.
func (w *worker) modeColdBurst() {
	api := uint8(w.ses.Runs & 1)
	cand := BurstCandidates(w.c, api)
	if len(cand) == 0 {
		return
	}
	p := cand[w.ses.From%len(cand)]
	after := BurstAfterList(w.c, cand)
	calls := make([]simrt.Call, 0, 1500+len(after))
	est := 1500 * (w.c.Steps[api][p] + 1)
	for k := 0; k < 1500; k++ {
		calls = append(calls, simrt.Call{API: api, Idx: p, Input: w.c.In[p]})
	}
	for _, q := range after {
		// one probe, then the lesson is refreshed (a few ordinary answers must not
		// be able to undo what the burst taught before the next probe is asked)
		calls = append(calls, simrt.Call{API: api, Idx: q, Input: w.c.In[q]})
		est += w.c.Steps[api][q] + 1
		for k := 0; k < 48; k++ {
			calls = append(calls, simrt.Call{API: api, Idx: p, Input: w.c.In[p]})
		}
		est += 48 * (w.c.Steps[api][p] + 1)
	}
	spec := &simrt.RunSpec{Seed: uint64(p), Tasks: [][]simrt.Call{calls}, Policy: simrt.Policy{Kind: "seq", PoolMode: "lifo"}, Est: est + 64}
	w.execRun(spec, nil, true)
}
