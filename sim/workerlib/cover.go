package workerlib

import (
	"fmt"
	"os"
	"reflect"
	"sort"
	"unsafe"

	"verif/sim/common"
	"verif/sim/simrt"
)

// modeCover grows the corpus: coverage-guided mutation over the yield sites of
// the instrumented library (edge coverage). It runs without scheduler and
// without race detector; it only produces INPUTS for the simulation stages.
// Deterministic: a fixed number of iterations from a seed.
func (w *worker) modeCover(exec func(api uint8, in string) (string, string), globals func() []interface{}) {
	r := simrt.NewRNG(simrt.Mix(w.ses.Seed, uint64(w.ses.Worker), 0xc0de))
	var dict []string
	if globals != nil {
		dict = collectStrings(globals())
	}
	for k := 0; k < 40; k++ {
		dict = append(dict, w.ses.Words...) // novel words are drawn far more often
		// runes with special case mapping / folding, odd spaces, BOM
		dict = append(dict, "\u212a", "\u017f", "\u0130", "\u0131", "\u00a0", "\ufeff", "\u2028", "\u00df", "\uff1c", "\uff07")
	}
	var pool []string
	for i, in := range w.c.In {
		if w.c.Flags[i]&common.FLong == 0 && len(in) <= 400 {
			pool = append(pool, in)
		}
	}
	if len(pool) == 0 {
		pool = []string{"a"}
	}
	seen := make([]bool, simrt.CovSize)
	nseen := 0
	simrt.CovOn = true
	runOne := func(in string) bool {
		simrt.CovReset()
		exec(0, in)
		exec(1, in)
		novel := false
		simrt.CovEdges(func(e uint32) {
			if !seen[e] {
				seen[e] = true
				nseen++
				novel = true
			}
		})
		return novel
	}
	for _, in := range pool {
		runOne(in)
	}
	base := nseen
	var kept []string
	for it := 0; it < w.ses.Runs; it++ {
		cand := mutateInput(r, pool, dict)
		if runOne(cand) {
			kept = append(kept, cand)
			pool = append(pool, cand)
		}
	}
	simrt.CovOn = false
	f, err := os.Create(w.ses.SeqOut)
	if err != nil {
		fmt.Fprintln(os.Stderr, "worker:", err)
		os.Exit(3)
	}
	for _, k := range kept {
		fmt.Fprintln(f, common.B64(k))
	}
	f.Close()
	if w.ses.Worker == 0 {
		if df, err := os.Create(w.ses.SeqOut + ".dict"); err == nil {
			for _, d := range dict {
				fmt.Fprintln(df, common.B64(d))
			}
			df.Close()
		}
	}
	w.sum.Runs = int64(w.ses.Runs)
	w.sum.Calls = int64(2 * (w.ses.Runs + len(w.c.In)))
	w.sum.CovEdgesBase = base
	w.sum.CovEdges = nseen
	w.sum.CovKept = len(kept)
	w.sum.DictSize = len(dict)
}

var interestingBytes = []byte("'\"<>=/\\`-#;()*!?&%@+,.:[]{}|^~ \t\n\r\x00\x0b\x0c\xa0aAzZ019_xXqQnNuUeEbB$")

func mutateInput(r *simrt.RNG, pool, dict []string) string {
	s := []byte(pool[r.Intn(len(pool))])
	if len(s) > 300 {
		a := r.Intn(len(s) - 200)
		s = s[a : a+200]
	}
	for m := 1 + r.Intn(4); m > 0; m-- {
		switch r.Intn(10) {
		case 0:
			if len(s) > 0 {
				s[r.Intn(len(s))] = interestingBytes[r.Intn(len(interestingBytes))]
			}
		case 1:
			p := r.Intn(len(s) + 1)
			s = append(s[:p:p], append([]byte{interestingBytes[r.Intn(len(interestingBytes))]}, s[p:]...)...)
		case 2:
			if len(s) > 1 {
				p := r.Intn(len(s))
				n := 1 + r.Intn(4)
				if p+n > len(s) {
					n = len(s) - p
				}
				s = append(s[:p:p], s[p+n:]...)
			}
		case 3:
			if len(s) > 1 {
				a := r.Intn(len(s))
				b := a + 1 + r.Intn(len(s)-a)
				rep := 1 + r.Intn(3)
				ins := []byte{}
				for k := 0; k < rep; k++ {
					ins = append(ins, s[a:b]...)
				}
				s = append(s[:b:b], append(ins, s[b:]...)...)
			}
		case 4:
			o := pool[r.Intn(len(pool))]
			if len(o) > 120 {
				o = o[:120]
			}
			p := r.Intn(len(s) + 1)
			q := r.Intn(len(o) + 1)
			s = append(s[:p:p], o[q:]...)
		case 5:
			if len(s) > 0 {
				s[r.Intn(len(s))] = byte(r.Intn(256))
			}
		case 6, 7:
			if len(dict) > 0 {
				d := dict[r.Intn(len(dict))]
				p := r.Intn(len(s) + 1)
				if r.Intn(3) == 0 {
					d = " " + d + " "
				}
				s = append(s[:p:p], append([]byte(d), s[p:]...)...)
			}
		case 8:
			if len(dict) > 0 && len(s) > 0 {
				d := dict[r.Intn(len(dict))]
				p := r.Intn(len(s))
				n := len(d)
				if p+n > len(s) {
					n = len(s) - p
				}
				s = append(s[:p:p], append([]byte(d), s[p+n:]...)...)
			}
		case 9:
			// long run of one byte / token (length thresholds)
			p := r.Intn(len(s) + 1)
			n := []int{8, 16, 31, 32, 33, 64, 65, 128, 256}[r.Intn(9)]
			b := interestingBytes[r.Intn(len(interestingBytes))]
			ins := make([]byte, n)
			for i := range ins {
				ins[i] = b
			}
			s = append(s[:p:p], append(ins, s[p:]...)...)
		}
		if len(s) > 600 {
			s = s[:600]
		}
	}
	return string(s)
}

// collectStrings gathers the strings found in the library's package-level
// variables (keyword tables, tag lists, ...): the mutation dictionary.
func collectStrings(ptrs []interface{}) []string {
	set := map[string]bool{}
	seen := map[unsafe.Pointer]bool{}
	var walk func(v reflect.Value, d int)
	walk = func(v reflect.Value, d int) {
		if d > 8 || len(set) > 20000 {
			return
		}
		switch v.Kind() {
		case reflect.String:
			if s := v.String(); len(s) > 0 && len(s) <= 40 {
				set[s] = true
			}
		case reflect.Slice, reflect.Array:
			if v.Kind() == reflect.Slice && v.IsNil() {
				return
			}
			if v.Type().Elem().Kind() == reflect.Uint8 {
				return
			}
			for i := 0; i < v.Len() && i < 20000; i++ {
				walk(v.Index(i), d+1)
			}
		case reflect.Struct:
			for i := 0; i < v.NumField(); i++ {
				walk(v.Field(i), d+1)
			}
		case reflect.Ptr:
			if v.IsNil() {
				return
			}
			p := unsafe.Pointer(v.Pointer())
			if seen[p] {
				return
			}
			seen[p] = true
			walk(v.Elem(), d+1)
		case reflect.Interface:
			if !v.IsNil() {
				walk(v.Elem(), d+1)
			}
		case reflect.Map:
			it := v.MapRange()
			for it.Next() {
				walk(it.Key(), d+1)
				walk(it.Value(), d+1)
			}
		}
	}
	for _, p := range ptrs {
		walk(reflect.ValueOf(p).Elem(), 0)
	}
	out := make([]string, 0, len(set))
	for s := range set {
		out = append(out, s)
	}
	sort.Strings(out)
	return out
}
