// Package instr copies the library's working tree into a scratch directory and
// puts every source of nondeterminism behind a simulator seam (DESIGN.md §3.2).
//
// All rewriting is done by byte-offset edits on the original text (statements
// are only ADDED, import paths and a few selectors renamed), so line numbers
// are preserved and nothing else in the file is touched.
package instr

import (
	"crypto/sha256"
	"encoding/hex"
	"fmt"
	"go/ast"
	"go/build/constraint"
	"go/importer"
	"go/parser"
	"go/token"
	"go/types"
	"os"
	"path/filepath"
	"sort"
	"strconv"
	"strings"
)

const (
	simMod   = "verif/sim"
	rtPath   = simMod + "/simrt"
	rtName   = "verifsimrt"
	timeName = "verifsimtime"
)

var importSwap = map[string]string{
	"sync":         rtPath + "/simsync",
	"sync/atomic":  rtPath + "/simatomic",
	"math/rand":    rtPath + "/simrand",
	"math/rand/v2": rtPath + "/simrand2",
	"hash/maphash": rtPath + "/simmaphash",
	"crypto/rand":  rtPath + "/simcrand",
	"context":      rtPath + "/simcontext",
}

var defaultName = map[string]string{"sync": "sync", "sync/atomic": "atomic", "math/rand": "rand", "math/rand/v2": "rand", "hash/maphash": "maphash", "crypto/rand": "rand", "context": "context"}

var timeRedirect = map[string]bool{"Now": true, "Since": true, "Until": true, "Sleep": true, "After": true, "AfterFunc": true, "NewTimer": true, "NewTicker": true, "Tick": true, "Timer": true, "Ticker": true}
var timeRefuse = map[string]bool{}

// imports that cannot run under the simulator (real blocking / unmanaged goroutines / I/O)
var refuseImport = map[string]bool{"C": true, "net": true, "net/http": true, "os/exec": true, "os/signal": true, "syscall": true}

// Knob is a capacity-like integer constant (cache size, ring length, entry
// limit): a tuning knob the simulator may shrink in a variant build so that
// eviction / wrap-around / "full" paths are reached by short histories.
type Knob struct {
	ID    int    `json:"id"`
	Name  string `json:"name"` // constant name, or "" for an inline literal
	File  string `json:"file"`
	Line  int    `json:"line"`
	Value int64  `json:"value"`
	Use   string `json:"use"` // how it is used: array | make | mod | lencmp | mask
	off   int
	n     int
}

// HashFunc is a function that looks like a fixed-width hash (name contains
// "hash"/"sum"/"crc"/"fnv"/"digest", one unsigned integer result of at most 64 bits,
// at least one string or []byte parameter). A variant build can weaken it to
// a few bits: code that is correct only as long as no two keys collide then
// shows its dependence on the history after a handful of calls.
type HashFunc struct {
	ID   int    `json:"id"`
	Name string `json:"name"`
	File string `json:"file"`
	Line int    `json:"line"`
	Ret  string `json:"result_type"`
	// Inline: not a function but a mixing loop inside Name; Var is the accumulator
	Inline bool   `json:"inline,omitempty"`
	Var    string `json:"accumulator,omitempty"`
	rets   [][2]int
	after  int // offset right after the loop (inline)
}

// Site describes one inserted yield.
type Site struct {
	ID   int    `json:"id"`
	File string `json:"file"`
	Line int    `json:"line"`
	Kind string `json:"kind"` // func | funclit | for | range
	Func string `json:"func"`
}

// Report is what the instrumenter found and did.
type Report struct {
	Sites          []Site         `json:"sites"`
	Files          []string       `json:"files"`
	Packages       []string       `json:"packages"`
	RootPackage    string         `json:"root_package"`
	ModulePath     string         `json:"module_path"`
	Globals        []string       `json:"globals"` // package-level vars of the root package
	GlobalWrites   []string       `json:"global_write_sites"`
	MapRangeSites  []string       `json:"map_range_sites"`  // iteration order left to Go (not seamed)
	MapRangeSeamed []string       `json:"map_range_seamed"` // iteration order decided by the scheduler
	SwappedImports []string       `json:"swapped_imports"`
	TimeRedirects  int            `json:"time_redirects"`
	GoStmts        int            `json:"go_stmts"`
	ChanOps        int            `json:"channel_ops_rewritten"`
	Unmodelled     []string       `json:"unmodelled"`
	AddrSites      []string       `json:"address_dependent_sites"` // heap addresses turned into numbers (unsafe.StringData, uintptr(unsafe.Pointer(..)), reflect headers)
	Refusals       []string       `json:"refusals"`
	Knobs          []Knob         `json:"knobs"`
	HashFuncs      []HashFunc     `json:"narrow_hash_funcs"`
	StrLits        []string       `json:"-"` // distinct short string literals of the source (workload dictionary)
	CmpInts        []int64        `json:"-"` // integer literals >= 1024 used in comparisons (threshold candidates)
	BaselineCmp    map[int64]bool `json:"-"` // such literals of the baseline (pinned) tree: never treated as knobs
	TypeCheck      string         `json:"typecheck"`
	TreeDigest     string         `json:"tree_digest"`
	SiteDigest     string         `json:"site_digest"`
}

type edit struct {
	off  int
	del  int
	text string
	seq  int
}

type fileCtx struct {
	rel   string
	src   []byte
	f     *ast.File
	edits []edit
}

func (fc *fileCtx) insert(off int, text string) {
	fc.edits = append(fc.edits, edit{off: off, text: text, seq: len(fc.edits)})
}
func (fc *fileCtx) replace(off, n int, text string) {
	fc.edits = append(fc.edits, edit{off: off, del: n, text: text, seq: len(fc.edits)})
}

func (fc *fileCtx) apply() []byte {
	sort.SliceStable(fc.edits, func(i, j int) bool {
		if fc.edits[i].off != fc.edits[j].off {
			return fc.edits[i].off < fc.edits[j].off
		}
		return fc.edits[i].seq < fc.edits[j].seq
	})
	var out []byte
	pos := 0
	for _, e := range fc.edits {
		if e.off < pos {
			continue // overlapping edit (should not happen)
		}
		out = append(out, fc.src[pos:e.off]...)
		out = append(out, e.text...)
		pos = e.off + e.del
	}
	out = append(out, fc.src[pos:]...)
	return out
}

// SnapshotPlain copies the non-test Go sources and go.mod of src to dst untouched.
func SnapshotPlain(src, dst string) (digest string, files []string, err error) {
	h := sha256.New()
	err = filepath.Walk(src, func(p string, info os.FileInfo, err error) error {
		if err != nil {
			return err
		}
		rel, _ := filepath.Rel(src, p)
		if info.IsDir() {
			b := info.Name()
			if rel != "." && (strings.HasPrefix(b, ".") || strings.HasPrefix(b, "_") || b == "testdata" || b == "vendor") {
				return filepath.SkipDir
			}
			return nil
		}
		if rel != "go.mod" && (!strings.HasSuffix(rel, ".go") || strings.HasSuffix(rel, "_test.go")) {
			return nil
		}
		data, err := os.ReadFile(p)
		if err != nil {
			return err
		}
		fmt.Fprintf(h, "%s\x00%d\x00", rel, len(data))
		h.Write(data)
		files = append(files, rel)
		out := filepath.Join(dst, rel)
		if err := os.MkdirAll(filepath.Dir(out), 0o755); err != nil {
			return err
		}
		return os.WriteFile(out, data, 0o644)
	})
	sort.Strings(files)
	return hex.EncodeToString(h.Sum(nil))[:16], files, err
}

// Instrument reads the plain snapshot in plainDir and writes the instrumented
// copy to dstDir. simDir is the absolute path of the verif/sim module.
func Instrument(plainDir, dstDir, simDir string) (*Report, error) {
	return InstrumentShrunk(plainDir, dstDir, simDir, nil)
}

// InstrumentShrunk is Instrument with the knobs named in shrink (knob id ->
// replacement text) rewritten: a configuration variant of the same tree.
func InstrumentShrunk(plainDir, dstDir, simDir string, shrink map[int]string) (*Report, error) {
	return InstrumentVariant(plainDir, dstDir, simDir, shrink, nil)
}

// InstrumentVariant additionally weakens the narrow hash functions named in
// weaken (hash func id -> number of result bits kept).
// BaselineCmpInts: comparison literals of the pinned tree (set by the driver
// from corpus/baseline_cmpints.lst before instrumenting); nil disables threshold knobs.
var BaselineCmpInts map[int64]bool

func InstrumentVariant(plainDir, dstDir, simDir string, shrink map[int]string, weaken map[int]int) (*Report, error) {
	rep := &Report{BaselineCmp: BaselineCmpInts}
	var files []string
	err := filepath.Walk(plainDir, func(p string, info os.FileInfo, err error) error {
		if err != nil {
			return err
		}
		if !info.IsDir() && strings.HasSuffix(p, ".go") {
			rel, _ := filepath.Rel(plainDir, p)
			files = append(files, rel)
		}
		return nil
	})
	if err != nil {
		return nil, err
	}
	sort.Strings(files)
	rep.Files = files

	// go.mod
	modData, err := os.ReadFile(filepath.Join(plainDir, "go.mod"))
	if err != nil {
		return nil, fmt.Errorf("go.mod: %w", err)
	}
	rep.ModulePath = modulePath(string(modData))
	if rep.ModulePath == "" {
		return nil, fmt.Errorf("cannot find module path in go.mod")
	}
	newMod := bumpGoVersion(string(modData)) + fmt.Sprintf("\nrequire %s v0.0.0\n\nreplace %s => %s\n", simMod, simMod, simDir)
	if err := os.MkdirAll(dstDir, 0o755); err != nil {
		return nil, err
	}
	if err := os.WriteFile(filepath.Join(dstDir, "go.mod"), []byte(newMod), 0o644); err != nil {
		return nil, err
	}

	fset := token.NewFileSet()
	byDir := map[string][]*fileCtx{}
	var all []*fileCtx
	for _, rel := range files {
		src, err := os.ReadFile(filepath.Join(plainDir, rel))
		if err != nil {
			return nil, err
		}
		f, err := parser.ParseFile(fset, rel, src, parser.ParseComments)
		if err != nil {
			return nil, fmt.Errorf("parse %s: %w", rel, err)
		}
		fc := &fileCtx{rel: rel, src: src, f: f}
		all = append(all, fc)
		d := filepath.Dir(rel)
		byDir[d] = append(byDir[d], fc)
	}
	for d := range byDir {
		rep.Packages = append(rep.Packages, d)
	}
	sort.Strings(rep.Packages)
	if root := byDir["."]; len(root) > 0 {
		rep.RootPackage = root[0].f.Name.Name
	} else {
		return nil, fmt.Errorf("no Go files in module root")
	}

	// best-effort type check of the root package (map-range / global-write probes)
	info := typeCheck(fset, rep, byDir["."])

	nextSite := 1
	for _, fc := range all {
		if err := instrumentFile(fset, fc, rep, info, &nextSite); err != nil {
			return nil, err
		}
	}
	collectKnobs(fset, all, rep, info)
	collectHashFuncs(fset, all, rep)
	for _, h := range rep.HashFuncs {
		if bits, ok := weaken[h.ID]; ok {
			for _, fc := range all {
				if fc.rel != h.File {
					continue
				}
				if h.Inline {
					fc.insert(h.after, fmt.Sprintf("; %s &= %d;", h.Var, (1<<uint(bits))-1))
					continue
				}
				for _, r := range h.rets {
					fc.insert(r[0], "(")
					fc.insert(r[1], fmt.Sprintf(") & %d", (1<<uint(bits))-1))
				}
			}
		}
	}
	lits := map[string]bool{}
	for _, fc := range all {
		ast.Inspect(fc.f, func(n ast.Node) bool {
			if _, ok := n.(*ast.ImportSpec); ok {
				return false
			}
			if bl, ok := n.(*ast.BasicLit); ok && bl.Kind == token.STRING {
				if v, err := strconv.Unquote(bl.Value); err == nil && len(v) >= 2 && len(v) <= 40 {
					lits[v] = true
				}
			}
			return true
		})
	}
	for l := range lits {
		rep.StrLits = append(rep.StrLits, l)
	}
	sort.Strings(rep.StrLits)
	for _, k := range rep.Knobs {
		if txt, ok := shrink[k.ID]; ok {
			for _, fc := range all {
				if fc.rel == k.File {
					fc.replace(k.off, k.n, txt)
				}
			}
		}
	}
	if nextSite >= 1<<16 {
		rep.Refusals = append(rep.Refusals, fmt.Sprintf("too many yield sites (%d)", nextSite))
	}
	for _, fc := range all {
		out := filepath.Join(dstDir, fc.rel)
		if err := os.MkdirAll(filepath.Dir(out), 0o755); err != nil {
			return nil, err
		}
		if err := os.WriteFile(out, fc.apply(), 0o644); err != nil {
			return nil, err
		}
	}

	// globals accessor for the root package
	for _, fc := range byDir["."] {
		if hasBuildConstraintExcluding(fc.src) {
			continue
		}
		for _, d := range fc.f.Decls {
			gd, ok := d.(*ast.GenDecl)
			if !ok || gd.Tok != token.VAR {
				continue
			}
			for _, sp := range gd.Specs {
				for _, n := range sp.(*ast.ValueSpec).Names {
					if n.Name != "_" {
						rep.Globals = append(rep.Globals, n.Name)
					}
				}
			}
		}
	}
	sort.Strings(rep.Globals)
	var b strings.Builder
	fmt.Fprintf(&b, "// Code generated by verif instrumenter. DO NOT EDIT.\n\npackage %s\n\n", rep.RootPackage)
	b.WriteString("// VerifGlobals returns the addresses of all package-level variables (probe only).\nfunc VerifGlobals() []interface{} {\n\treturn []interface{}{\n")
	for _, g := range rep.Globals {
		fmt.Fprintf(&b, "\t\t&%s,\n", g)
	}
	b.WriteString("\t}\n}\n\n// VerifGlobalNames names them.\nvar VerifGlobalNames = []string{")
	for _, g := range rep.Globals {
		fmt.Fprintf(&b, "%q, ", g)
	}
	b.WriteString("}\n")
	if err := os.WriteFile(filepath.Join(dstDir, "zz_verif_globals.go"), []byte(b.String()), 0o644); err != nil {
		return nil, err
	}

	h := sha256.New()
	for _, s := range rep.Sites {
		fmt.Fprintf(h, "%d %s %d %s\n", s.ID, s.File, s.Line, s.Kind)
	}
	rep.SiteDigest = hex.EncodeToString(h.Sum(nil))[:16]
	return rep, nil
}

func hasBuildConstraintExcluding(src []byte) bool {
	// true if a //go:build line excludes the file from the simulator's build
	// (tags: verif, race, cgo, gc, linux, amd64, every go1.N up to the toolchain's).
	for _, line := range strings.SplitN(string(src), "\n", 60) {
		t := strings.TrimSpace(line)
		if constraint.IsGoBuild(t) {
			x, err := constraint.Parse(t)
			if err != nil {
				return false
			}
			return !x.Eval(func(tag string) bool {
				switch tag {
				case "verif", "race", "cgo", "gc", "linux", "amd64", "unix":
					return true
				}
				if strings.HasPrefix(tag, "go1.") {
					n, err := strconv.Atoi(tag[4:])
					return err == nil && n <= 23
				}
				return false
			})
		}
		if strings.HasPrefix(t, "package ") {
			break
		}
	}
	return false
}

func modulePath(mod string) string {
	for _, l := range strings.Split(mod, "\n") {
		f := strings.Fields(l)
		if len(f) >= 2 && f[0] == "module" {
			return strings.Trim(f[1], `"`)
		}
	}
	return ""
}

// bumpGoVersion raises a go directive below 1.21 to 1.21 (generic stubs need
// 1.18+; 1.21 keeps pre-1.22 loop-variable semantics unchanged).
func bumpGoVersion(mod string) string {
	lines := strings.Split(mod, "\n")
	found := false
	for i, l := range lines {
		f := strings.Fields(l)
		if len(f) == 2 && f[0] == "go" {
			found = true
			parts := strings.Split(f[1], ".")
			if len(parts) >= 2 {
				minor, _ := strconv.Atoi(parts[1])
				if parts[0] == "1" && minor < 21 {
					lines[i] = "go 1.21"
				}
			}
		}
		if len(f) >= 1 && f[0] == "toolchain" {
			lines[i] = ""
		}
	}
	if !found {
		lines = append(lines, "go 1.21")
	}
	return strings.Join(lines, "\n")
}

func typeCheck(fset *token.FileSet, rep *Report, fcs []*fileCtx) *types.Info {
	var files []*ast.File
	for _, fc := range fcs {
		if hasBuildConstraintExcluding(fc.src) {
			continue
		}
		files = append(files, fc.f)
	}
	info := &types.Info{Types: map[ast.Expr]types.TypeAndValue{}, Uses: map[*ast.Ident]types.Object{}, Defs: map[*ast.Ident]types.Object{}}
	conf := types.Config{Importer: importer.ForCompiler(fset, "source", nil), Error: func(error) {}}
	_, err := conf.Check(rep.ModulePath, fset, files, info)
	if err != nil {
		rep.TypeCheck = "partial: " + err.Error()
	} else {
		rep.TypeCheck = "ok"
	}
	return info
}

func (fc *fileCtx) off(fset *token.FileSet, p token.Pos) int { return fset.Position(p).Offset }

func instrumentFile(fset *token.FileSet, fc *fileCtx, rep *Report, info *types.Info, nextSite *int) error {
	f := fc.f
	// local names of interesting imports
	local := map[string]string{} // local name -> import path
	needTime := false
	keepDebug := false
	timeLocal := ""
	for _, im := range f.Imports {
		path, _ := strconv.Unquote(im.Path.Value)
		name := ""
		if im.Name != nil {
			name = im.Name.Name
		}
		if refuseImport[path] {
			rep.Refusals = append(rep.Refusals, fmt.Sprintf("%s: import %q cannot run under the simulator", fc.rel, path))
		}
		if to, ok := importSwap[path]; ok {
			n := name
			if n == "" {
				n = defaultName[path]
			}
			start := fc.off(fset, im.Pos())
			end := fc.off(fset, im.End())
			fc.replace(start, end-start, fmt.Sprintf("%s %q", n, to))
			rep.SwappedImports = append(rep.SwappedImports, fc.rel+":"+path)
			continue
		}
		if name == "" {
			name = path[strings.LastIndex(path, "/")+1:]
		}
		local[name] = path
		if path == "time" {
			timeLocal = name
		}
		switch path {
		case "strings", "bytes", "unicode", "unicode/utf8", "unicode/utf16", "strconv", "sort", "slices", "maps", "fmt", "errors",
			"math", "math/bits", "regexp", "unsafe", "time", "html", "net/url", "encoding/hex", "encoding/base64", "encoding/binary",
			"hash/fnv", "hash/crc32", "container/list", "container/heap", "container/ring", "cmp", "iter", "runtime", "os", "io", "bufio", "reflect", "text/scanner", "unique", "crypto/sha256", "crypto/sha1", "crypto/md5", "encoding/json", "log", "runtime/debug":
		default:
			if !refuseImport[path] && !strings.HasPrefix(path, rep.ModulePath) {
				rep.Unmodelled = append(rep.Unmodelled, fc.rel+": import "+path)
			}
		}
	}

	inComm := map[ast.Node]bool{}
	recv2 := map[*ast.UnaryExpr]bool{}
	funcName := ""
	addSite := func(kind string, lbrace token.Pos) {
		id := *nextSite
		*nextSite++
		p := fset.Position(lbrace)
		rep.Sites = append(rep.Sites, Site{ID: id, File: fc.rel, Line: p.Line, Kind: kind, Func: funcName})
		fc.insert(p.Offset+1, fmt.Sprintf(" %s.Yield(%d);", rtName, id))
	}

	isPkgIdent := func(x ast.Expr, path string) bool {
		id, ok := x.(*ast.Ident)
		if !ok || id.Obj != nil {
			return false
		}
		return local[id.Name] == path
	}

	var visit func(n ast.Node) bool
	visit = func(n ast.Node) bool {
		switch x := n.(type) {
		case *ast.FuncDecl:
			if x.Body != nil {
				prev := funcName
				funcName = x.Name.Name
				if x.Recv != nil && len(x.Recv.List) > 0 {
					funcName = recvName(x.Recv.List[0].Type) + "." + funcName
				}
				addSite("func", x.Body.Lbrace)
				if x.Recv != nil {
					ast.Inspect(x.Recv, visit)
				}
				ast.Inspect(x.Type, visit) // parameter and result types may name redirected types (time.Timer, ...)
				ast.Inspect(x.Body, visit)
				funcName = prev
				return false
			}
		case *ast.FuncLit:
			addSite("funclit", x.Body.Lbrace)
		case *ast.IfStmt:
			addSite("if", x.Body.Lbrace)
			if eb, ok := x.Else.(*ast.BlockStmt); ok {
				addSite("else", eb.Lbrace)
			}
		case *ast.CaseClause:
			// a yield right after the colon: branch-level coverage and preemption points
			id := *nextSite
			*nextSite++
			pp := fset.Position(x.Colon)
			rep.Sites = append(rep.Sites, Site{ID: id, File: fc.rel, Line: pp.Line, Kind: "case", Func: funcName})
			fc.insert(pp.Offset+1, fmt.Sprintf(" %s.Yield(%d);", rtName, id))
		case *ast.ForStmt:
			addSite("for", x.Body.Lbrace)
		case *ast.RangeStmt:
			addSite("range", x.Body.Lbrace)
			if info != nil {
				if tv, ok := info.Types[x.X]; ok && tv.Type != nil {
					switch mt := tv.Type.Underlying().(type) {
					case *types.Map:
						p := fset.Position(x.Pos())
						if rewriteMapRange(fset, fc, x, mt, *nextSite) {
							rep.MapRangeSeamed = append(rep.MapRangeSeamed, fmt.Sprintf("%s:%d", fc.rel, p.Line))
						} else {
							rep.MapRangeSites = append(rep.MapRangeSites, fmt.Sprintf("%s:%d", fc.rel, p.Line))
						}
					case *types.Chan:
						rep.ChanOps++
						rewriteChanRange(fset, fc, x, *nextSite)
					}
				}
			}
		case *ast.GoStmt:
			rep.GoStmts++
			rewriteGo(fset, fc, rep, x, info)
		case *ast.SendStmt:
			if !inComm[x] {
				rep.ChanOps++
				fc.insert(fc.off(fset, x.Pos()), rtName+".ChanSend(")
				fc.replace(fc.off(fset, x.Arrow), 2, ",")
				fc.insert(fc.off(fset, x.End()), ")")
			}
		case *ast.SelectStmt:
			rep.ChanOps++
			rewriteSelect(fset, fc, rep, x, inComm, *nextSite)
			*nextSite++
		case *ast.AssignStmt:
			if len(x.Lhs) == 2 && len(x.Rhs) == 1 {
				if u, ok := ast.Unparen(x.Rhs[0]).(*ast.UnaryExpr); ok && u.Op == token.ARROW {
					recv2[u] = true
				}
			}
			noteGlobalWrites(fset, fc, rep, info, funcName, x.Lhs, x.Tok == token.DEFINE)
		case *ast.ValueSpec:
			if len(x.Names) == 2 && len(x.Values) == 1 {
				if u, ok := ast.Unparen(x.Values[0]).(*ast.UnaryExpr); ok && u.Op == token.ARROW {
					recv2[u] = true
				}
			}
		case *ast.UnaryExpr:
			if x.Op == token.ARROW && !inComm[x] {
				rep.ChanOps++
				fn := ".ChanRecv("
				if recv2[x] {
					fn = ".ChanRecv2("
				}
				fc.replace(fc.off(fset, x.OpPos), 2, rtName+fn)
				fc.insert(fc.off(fset, x.End()), ")")
			}
		case *ast.CallExpr:
			// uintptr(unsafe.Pointer(..)): a heap or stack address becomes a number
			if id, ok := x.Fun.(*ast.Ident); ok && id.Obj == nil && id.Name == "uintptr" && len(x.Args) == 1 {
				if c2, ok := x.Args[0].(*ast.CallExpr); ok {
					if sel, ok := c2.Fun.(*ast.SelectorExpr); ok && isPkgIdent(sel.X, "unsafe") && sel.Sel.Name == "Pointer" {
						p := fset.Position(x.Pos())
						rep.AddrSites = append(rep.AddrSites, fmt.Sprintf("%s:%d: uintptr(unsafe.Pointer(..))", fc.rel, p.Line))
					}
				}
			}
			if sel, ok := x.Fun.(*ast.SelectorExpr); ok && len(x.Args) == 0 && (sel.Sel.Name == "UnsafeAddr" || sel.Sel.Name == "UnsafePointer" || sel.Sel.Name == "Pointer") {
				if _, isIdent := sel.X.(*ast.Ident); !isIdent || !isPkgIdent(sel.X, "unsafe") {
					p := fset.Position(x.Pos())
					rep.AddrSites = append(rep.AddrSites, fmt.Sprintf("%s:%d: .%s()", fc.rel, p.Line, sel.Sel.Name))
				}
			}
			if id, ok := x.Fun.(*ast.Ident); ok && id.Obj == nil && id.Name == "make" && len(x.Args) >= 1 {
				isChan := false
				if _, ok := x.Args[0].(*ast.ChanType); ok {
					isChan = true
				} else if info != nil {
					if tv, ok := info.Types[x.Args[0]]; ok && tv.Type != nil {
						_, isChan = tv.Type.Underlying().(*types.Chan)
					}
				}
				if isChan {
					// a fresh channel: the scheduler forgets whatever an earlier channel at the same address left behind
					fc.insert(fc.off(fset, x.Pos()), rtName+".ChanMake(")
					fc.insert(fc.off(fset, x.End()), ")")
				}
			}
			if id, ok := x.Fun.(*ast.Ident); ok && id.Obj == nil && len(x.Args) == 1 {
				switch id.Name {
				case "make":
				case "close":
					rep.ChanOps++
					fc.replace(fc.off(fset, id.Pos()), len(id.Name), rtName+".ChanClose")
				case "len":
					if info != nil {
						if tv, ok := info.Types[x.Args[0]]; ok && tv.Type != nil {
							if ct, ok := tv.Type.Underlying().(*types.Chan); ok {
								if ct.Dir() == types.SendRecv {
									fc.replace(fc.off(fset, id.Pos()), len(id.Name), rtName+".ChanLen")
								} else {
									p := fset.Position(x.Pos())
									rep.Unmodelled = append(rep.Unmodelled, fmt.Sprintf("%s:%d: len of a directional channel", fc.rel, p.Line))
								}
							}
						}
					}
				}
			}
		case *ast.SelectorExpr:
			if isPkgIdent(x.X, "time") {
				if timeRedirect[x.Sel.Name] {
					o := fc.off(fset, x.X.Pos())
					fc.replace(o, len(x.X.(*ast.Ident).Name), timeName)
					rep.TimeRedirects++
					needTime = true
				} else if timeRefuse[x.Sel.Name] {
					p := fset.Position(x.Pos())
					rep.Refusals = append(rep.Refusals, fmt.Sprintf("%s:%d: time.%s (timers are not simulated)", fc.rel, p.Line, x.Sel.Name))
				}
			}
			if isPkgIdent(x.X, "runtime") {
				switch x.Sel.Name {
				case "Gosched", "GOMAXPROCS", "NumCPU", "SetFinalizer":
					o := fc.off(fset, x.X.Pos())
					fc.replace(o, len(x.X.(*ast.Ident).Name), rtName)
				case "LockOSThread", "UnlockOSThread", "Goexit":
					p := fset.Position(x.Pos())
					rep.Refusals = append(rep.Refusals, fmt.Sprintf("%s:%d: runtime.%s", fc.rel, p.Line, x.Sel.Name))
				case "GC", "NumGoroutine", "ReadMemStats":
					o := fc.off(fset, x.X.Pos())
					fc.replace(o, len(x.X.(*ast.Ident).Name), rtName)
				case "AddCleanup":
					p := fset.Position(x.Pos())
					rep.Unmodelled = append(rep.Unmodelled, fmt.Sprintf("%s:%d: runtime.%s", fc.rel, p.Line, x.Sel.Name))
				}
			}
			if isPkgIdent(x.X, "unsafe") && (x.Sel.Name == "StringData" || x.Sel.Name == "SliceData") ||
				isPkgIdent(x.X, "reflect") && (x.Sel.Name == "StringHeader" || x.Sel.Name == "SliceHeader") {
				p := fset.Position(x.Pos())
				rep.AddrSites = append(rep.AddrSites, fmt.Sprintf("%s:%d: %s.%s", fc.rel, p.Line, x.X.(*ast.Ident).Name, x.Sel.Name))
			}
			if isPkgIdent(x.X, "runtime/debug") {
				switch x.Sel.Name {
				case "SetGCPercent", "SetMemoryLimit", "FreeOSMemory":
					// the collector stays a scheduler decision
					o := fc.off(fset, x.X.Pos())
					fc.replace(o, int(x.Sel.End()-x.X.Pos()), rtName+".Debug"+x.Sel.Name)
					keepDebug = true
				case "ReadGCStats":
					p := fset.Position(x.Pos())
					rep.Unmodelled = append(rep.Unmodelled, fmt.Sprintf("%s:%d: debug.%s", fc.rel, p.Line, x.Sel.Name))
				}
			}
		case *ast.IncDecStmt:
			noteGlobalWrites(fset, fc, rep, info, funcName, []ast.Expr{x.X}, false)
		}
		return true
	}
	ast.Inspect(f, visit)

	// add our imports right after the package clause (same line: line numbers stay)
	imp := fmt.Sprintf("; import %s %q", rtName, rtPath)
	if needTime {
		imp += fmt.Sprintf("; import %s %q", timeName, rtPath+"/simtime")
	}
	fc.insert(fc.off(fset, f.Name.End()), imp)
	tail := fmt.Sprintf("\nvar _ = %s.Yield\n", rtName)
	if timeLocal != "" && timeLocal != "_" && timeLocal != "." {
		tail += fmt.Sprintf("var _ = %s.Nanosecond\n", timeLocal)
	}
	for name, path := range local {
		if path == "runtime" && name != "_" && name != "." {
			tail += fmt.Sprintf("var _ = %s.Version\n", name)
		}
		if path == "runtime/debug" && keepDebug && name != "_" && name != "." {
			tail += fmt.Sprintf("var _ = %s.Stack\n", name)
		}
	}
	fc.insert(len(fc.src), tail)
	return nil
}

func recvName(e ast.Expr) string {
	switch x := e.(type) {
	case *ast.StarExpr:
		return recvName(x.X)
	case *ast.Ident:
		return x.Name
	case *ast.IndexExpr:
		return recvName(x.X)
	case *ast.IndexListExpr:
		return recvName(x.X)
	}
	return "?"
}

// noteGlobalWrites records assignments whose target resolves to a package-level
// variable outside init (informational probe; the verdicts come from the
// dynamic oracles).
func noteGlobalWrites(fset *token.FileSet, fc *fileCtx, rep *Report, info *types.Info, fn string, lhs []ast.Expr, define bool) {
	if info == nil || define || fn == "init" || fn == "" {
		return
	}
	for _, e := range lhs {
		root := e
		for {
			switch x := root.(type) {
			case *ast.SelectorExpr:
				root = x.X
				continue
			case *ast.IndexExpr:
				root = x.X
				continue
			case *ast.StarExpr:
				root = x.X
				continue
			case *ast.ParenExpr:
				root = x.X
				continue
			}
			break
		}
		id, ok := root.(*ast.Ident)
		if !ok {
			continue
		}
		obj := info.Uses[id]
		v, ok := obj.(*types.Var)
		if !ok || v.Pkg() == nil || v.Parent() != v.Pkg().Scope() {
			continue
		}
		p := fset.Position(e.Pos())
		rep.GlobalWrites = append(rep.GlobalWrites, fmt.Sprintf("%s:%d %s in %s", fc.rel, p.Line, id.Name, fn))
	}
}

// rewriteGo turns `go f(args)` into a simulator-managed task.
//
//	go func(p T){body}(a)  ->  verifsimrt.Go(func(p T) func() { return func() { func(){body}() } }(a))
//	go f(a, b)             ->  { verif_f, verif_a0 := f, a; verifsimrt.Go(func() { verif_f(verif_a0, b') }) }
//
// Arguments are evaluated at the go statement, as Go requires.
func rewriteGo(fset *token.FileSet, fc *fileCtx, rep *Report, g *ast.GoStmt, info *types.Info) {
	call := g.Call
	goOff := fc.off(fset, g.Pos())
	text := func(n ast.Node) string { return string(fc.src[fc.off(fset, n.Pos()):fc.off(fset, n.End())]) }
	if call.Ellipsis.IsValid() {
		p := fset.Position(g.Pos())
		rep.Refusals = append(rep.Refusals, fmt.Sprintf("%s:%d: go statement with variadic spread", fc.rel, p.Line))
		return
	}
	if lit, ok := ast.Unparen(call.Fun).(*ast.FuncLit); ok {
		// replace "go " by prefix, keep the literal's parameter list, wrap body
		res := ""
		if lit.Type.Results != nil {
			res = " " + text(lit.Type.Results)
			if len(lit.Type.Results.List) > 0 && lit.Type.Results.Opening == token.NoPos {
				res = " (" + text(lit.Type.Results) + ")"
			}
		}
		// "go" keyword -> "verifsimrt.Go("
		fc.replace(goOff, 2, rtName+".Go(")
		// after params (and results) before body: retype outer as returning func()
		bodyL := fc.off(fset, lit.Body.Lbrace)
		sigEnd := fc.off(fset, lit.Type.Params.End())
		fc.replace(sigEnd, bodyL-sigEnd, " func() { return func() { func()"+res+" ")
		// the yield for the literal body is inserted at bodyL+1 by addSite (visited later)
		bodyR := fc.off(fset, lit.Body.Rbrace)
		fc.insert(bodyR+1, "() } }")
		fc.insert(fc.off(fset, call.End()), ")")
		return
	}
	// general callee: bind callee and non-constant args to temporaries
	var names, vals, args []string
	fun := call.Fun
	names = append(names, "verif_go_f")
	vals = append(vals, text(fun))
	for i, a := range call.Args {
		constant := false
		switch x := ast.Unparen(a).(type) {
		case *ast.BasicLit:
			constant = true
		case *ast.Ident:
			constant = x.Name == "nil" || x.Name == "true" || x.Name == "false"
		}
		if info != nil {
			if tv, ok := info.Types[a]; ok && (tv.Value != nil || tv.IsNil()) {
				constant = true
			}
		}
		if constant {
			args = append(args, text(a))
			continue
		}
		n := fmt.Sprintf("verif_go_a%d", i)
		names = append(names, n)
		vals = append(vals, text(a))
		args = append(args, n)
	}
	repl := fmt.Sprintf("{ %s := %s; %s.Go(func() { verif_go_f(%s) }) }", strings.Join(names, ", "), strings.Join(vals, ", "), rtName, strings.Join(args, ", "))
	end := fc.off(fset, g.End())
	fc.replace(goOff, end-goOff, repl)
}

// ---------------------------------------------------------------- knobs

func intLit(e ast.Expr) (int64, bool) {
	switch x := ast.Unparen(e).(type) {
	case *ast.BasicLit:
		if x.Kind == token.INT {
			v, err := strconv.ParseInt(strings.ReplaceAll(x.Value, "_", ""), 0, 64)
			return v, err == nil
		}
	case *ast.BinaryExpr:
		if x.Op == token.SHL {
			a, ok1 := intLit(x.X)
			b, ok2 := intLit(x.Y)
			if ok1 && ok2 && b < 40 {
				return a << uint(b), true
			}
		}
	}
	return 0, false
}

// hasLenCall reports whether e contains len(x)/cap(x) of a CONTAINER (map,
// slice, array, channel). len of a string is an input-length threshold, not a
// capacity: shrinking it would switch the guarded feature off rather than
// stress it.
func hasLenCall(e ast.Expr, info *types.Info) bool {
	found := false
	ast.Inspect(e, func(n ast.Node) bool {
		if c, ok := n.(*ast.CallExpr); ok && len(c.Args) == 1 {
			if id, ok := c.Fun.(*ast.Ident); ok && (id.Name == "len" || id.Name == "cap") {
				if info == nil {
					return true
				}
				if tv, ok := info.Types[c.Args[0]]; ok && tv.Type != nil {
					switch u := tv.Type.Underlying().(type) {
					case *types.Map, *types.Slice, *types.Array, *types.Chan:
						found = true
					case *types.Pointer:
						if _, ok := u.Elem().Underlying().(*types.Array); ok {
							found = true
						}
					}
				}
			}
		}
		return !found
	})
	return found
}

// collectKnobs finds named package-level integer constants/variables (>= 16)
// that are used like a capacity - array length in a type, make() size, right
// operand of %, comparison against len()/cap(), (N-1) mask - and inline
// literals (>= 16) compared against len()/cap() or used as a modulus.
func collectKnobs(fset *token.FileSet, all []*fileCtx, rep *Report, info *types.Info) {
	type decl struct {
		fc    *fileCtx
		lit   ast.Expr
		value int64
		line  int
	}
	named := map[string]*decl{}
	for _, fc := range all {
		if filepath.Dir(fc.rel) != "." {
			continue
		}
		for _, d := range fc.f.Decls {
			gd, ok := d.(*ast.GenDecl)
			if !ok || (gd.Tok != token.CONST && gd.Tok != token.VAR) {
				continue
			}
			for _, sp := range gd.Specs {
				vs := sp.(*ast.ValueSpec)
				for i, n := range vs.Names {
					if i < len(vs.Values) {
						if v, ok := intLit(vs.Values[i]); ok && v >= 16 {
							named[n.Name] = &decl{fc: fc, lit: vs.Values[i], value: v, line: fset.Position(n.Pos()).Line}
						}
					}
				}
			}
		}
	}
	uses := map[string]string{}
	type inline struct {
		fc  *fileCtx
		lit ast.Expr
		v   int64
		use string
	}
	var inl []inline
	note := func(fc *fileCtx, e ast.Expr, use string, allowInline bool) {
		e = ast.Unparen(e)
		if id, ok := e.(*ast.Ident); ok {
			if _, ok := named[id.Name]; ok && uses[id.Name] == "" {
				uses[id.Name] = use
			}
			return
		}
		if allowInline {
			if v, ok := intLit(e); ok && v >= 16 {
				inl = append(inl, inline{fc, e, v, use})
			}
		}
	}
	for _, fc := range all {
		if filepath.Dir(fc.rel) != "." {
			continue
		}
		skipArr := map[*ast.ArrayType]bool{}
		ast.Inspect(fc.f, func(n ast.Node) bool {
			switch x := n.(type) {
			case *ast.CompositeLit:
				if at, ok := x.Type.(*ast.ArrayType); ok && len(x.Elts) > 0 {
					skipArr[at] = true
				}
			case *ast.ArrayType:
				if x.Len != nil && !skipArr[x] {
					note(fc, x.Len, "array", false)
				}
			case *ast.CallExpr:
				if id, ok := x.Fun.(*ast.Ident); ok && id.Name == "make" {
					for _, a := range x.Args[1:] {
						note(fc, a, "make", false)
					}
				}
			case *ast.BinaryExpr:
				switch x.Op {
				case token.REM:
					note(fc, x.Y, "mod", true)
				case token.LSS, token.LEQ, token.GTR, token.GEQ, token.EQL, token.NEQ:
					if hasLenCall(x.X, info) {
						note(fc, x.Y, "lencmp", true)
					} else if hasLenCall(x.Y, info) {
						note(fc, x.X, "lencmp", true)
					} else if x.Op != token.EQL && x.Op != token.NEQ {
						// a large literal compared with something that is not a length: an
						// event-count / byte-count threshold. Only literals the baseline tree
						// does not contain are candidates.
						for _, side := range []ast.Expr{x.X, x.Y} {
							if v, ok := intLit(side); ok && v >= 1024 {
								rep.CmpInts = append(rep.CmpInts, v)
								if rep.BaselineCmp != nil && !rep.BaselineCmp[v] && !lenOfString(x, info) {
									inl = append(inl, inline{fc, ast.Unparen(side), v, "threshold"})
								}
							}
						}
					}
				case token.AND:
					if be, ok := ast.Unparen(x.Y).(*ast.BinaryExpr); ok && be.Op == token.SUB {
						if one, ok := intLit(be.Y); ok && one == 1 {
							note(fc, be.X, "mask", false)
						}
					}
				}
			}
			return true
		})
	}
	var names []string
	for n := range uses {
		names = append(names, n)
	}
	sort.Strings(names)
	for _, n := range names {
		d := named[n]
		o := fset.Position(d.lit.Pos()).Offset
		rep.Knobs = append(rep.Knobs, Knob{ID: len(rep.Knobs), Name: n, File: d.fc.rel, Line: d.line, Value: d.value, Use: uses[n],
			off: o, n: fset.Position(d.lit.End()).Offset - o})
	}
	sort.SliceStable(inl, func(i, j int) bool {
		if inl[i].fc.rel != inl[j].fc.rel {
			return inl[i].fc.rel < inl[j].fc.rel
		}
		return inl[i].lit.Pos() < inl[j].lit.Pos()
	})
	for _, x := range inl {
		p := fset.Position(x.lit.Pos())
		rep.Knobs = append(rep.Knobs, Knob{ID: len(rep.Knobs), File: x.fc.rel, Line: p.Line, Value: x.v, Use: x.use,
			off: p.Offset, n: fset.Position(x.lit.End()).Offset - p.Offset})
	}
}

// rewriteMapRange puts the iteration order of `for k, v := range m` behind a
// seam: keys are collected, sorted and permuted by the run's PRNG
// (verifsimrt.MapKeys). Only for maps with ordered basic key types whose
// range expression is a plain identifier / selector chain.
func rewriteMapRange(fset *token.FileSet, fc *fileCtx, x *ast.RangeStmt, mt *types.Map, uniq int) bool {
	kb, ok := mt.Key().Underlying().(*types.Basic)
	if !ok || kb.Info()&(types.IsInteger|types.IsFloat|types.IsString) == 0 {
		return false
	}
	plain := func(e ast.Expr) bool {
		for {
			switch y := e.(type) {
			case *ast.Ident:
				return true
			case *ast.SelectorExpr:
				e = y.X
			case *ast.ParenExpr:
				e = y.X
			case *ast.StarExpr:
				e = y.X
			default:
				return false
			}
		}
	}
	if !plain(x.X) {
		return false
	}
	text := func(n ast.Node) string { return string(fc.src[fc.off(fset, n.Pos()):fc.off(fset, n.End())]) }
	isBlank := func(e ast.Expr) bool {
		if e == nil {
			return true
		}
		id, ok := e.(*ast.Ident)
		return ok && id.Name == "_"
	}
	if isBlank(x.Key) && isBlank(x.Value) {
		return false // pure counting loop: order is irrelevant
	}
	m := text(x.X)
	kv := fmt.Sprintf("verifmk%d", uniq)
	okv := fmt.Sprintf("verifok%d", uniq)
	hdr := fmt.Sprintf("for _, %s := range %s.MapKeys(%s) {", kv, rtName, m)
	asg := ":="
	if x.Tok == token.ASSIGN {
		asg = "="
	}
	var pre string
	switch {
	case !isBlank(x.Value) && x.Tok == token.DEFINE:
		pre = fmt.Sprintf(" %s, %s := (%s)[%s]; if !%s { continue };", text(x.Value), okv, m, kv, okv)
	case !isBlank(x.Value):
		pre = fmt.Sprintf(" var %s bool; %s, %s = (%s)[%s]; if !%s { continue };", okv, text(x.Value), okv, m, kv, okv)
	default:
		pre = fmt.Sprintf(" if _, %s := (%s)[%s]; !%s { continue };", okv, m, kv, okv)
	}
	if !isBlank(x.Key) {
		pre += fmt.Sprintf(" %s %s %s;", text(x.Key), asg, kv)
	}
	start := fc.off(fset, x.For)
	lb := fc.off(fset, x.Body.Lbrace)
	fc.replace(start, lb+1-start, hdr+pre)
	return true
}

// rewriteChanRange: `for v := range ch {` -> `for { v, ok := ChanRecv2(ch); if !ok { break };`
func rewriteChanRange(fset *token.FileSet, fc *fileCtx, x *ast.RangeStmt, uniq int) {
	text := func(n ast.Node) string { return string(fc.src[fc.off(fset, n.Pos()):fc.off(fset, n.End())]) }
	okv := fmt.Sprintf("verifok%d", uniq)
	ch := text(x.X)
	var pre string
	switch {
	case x.Key == nil:
		pre = fmt.Sprintf("for { _, %s := %s.ChanRecv2(%s); if !%s { break };", okv, rtName, ch, okv)
	case x.Tok == token.DEFINE:
		pre = fmt.Sprintf("for { %s, %s := %s.ChanRecv2(%s); if !%s { break };", text(x.Key), okv, rtName, ch, okv)
	default:
		pre = fmt.Sprintf("for { var %s bool; %s, %s = %s.ChanRecv2(%s); if !%s { break };", okv, text(x.Key), okv, rtName, ch, okv)
	}
	start := fc.off(fset, x.For)
	lb := fc.off(fset, x.Body.Lbrace)
	fc.replace(start, lb+1-start, pre)
}

// rewriteSelect turns a select statement into a switch over verifsimrt.Select.
func rewriteSelect(fset *token.FileSet, fc *fileCtx, rep *Report, x *ast.SelectStmt, inComm map[ast.Node]bool, uniq int) {
	text := func(n ast.Node) string { return string(fc.src[fc.off(fset, n.Pos()):fc.off(fset, n.End())]) }
	sel := fmt.Sprintf("verifsel%d", uniq)
	val := fmt.Sprintf("verifval%d", uniq)
	okv := fmt.Sprintf("verifselok%d", uniq)
	hasDefault := false
	var cases []string
	type clause struct {
		cc      *ast.CommClause
		idx     int
		prelude string
	}
	var cls []clause
	plain := func(e ast.Expr) bool {
		for {
			switch y := e.(type) {
			case *ast.Ident:
				return true
			case *ast.SelectorExpr:
				e = y.X
			case *ast.ParenExpr:
				e = y.X
			default:
				return false
			}
		}
	}
	for _, st := range x.Body.List {
		cc := st.(*ast.CommClause)
		if cc.Comm == nil {
			hasDefault = true
			cls = append(cls, clause{cc: cc, idx: -1})
			continue
		}
		ast.Inspect(cc.Comm, func(n ast.Node) bool {
			if n != nil {
				inComm[n] = true
			}
			return true
		})
		idx := len(cases)
		pre := ""
		switch c := cc.Comm.(type) {
		case *ast.SendStmt:
			cases = append(cases, fmt.Sprintf("%s.SelSend(%s, %s)", rtName, text(c.Chan), text(c.Value)))
		case *ast.ExprStmt:
			u, ok := ast.Unparen(c.X).(*ast.UnaryExpr)
			if !ok || u.Op != token.ARROW {
				rep.Refusals = append(rep.Refusals, fmt.Sprintf("%s:%d: unsupported select case", fc.rel, fset.Position(cc.Pos()).Line))
				return
			}
			cases = append(cases, fmt.Sprintf("%s.SelRecv(%s)", rtName, text(u.X)))
		case *ast.AssignStmt:
			u, ok := ast.Unparen(c.Rhs[0]).(*ast.UnaryExpr)
			if !ok || u.Op != token.ARROW || !plain(u.X) {
				rep.Refusals = append(rep.Refusals, fmt.Sprintf("%s:%d: unsupported select case (channel expression must be a plain name)", fc.rel, fset.Position(cc.Pos()).Line))
				return
			}
			cases = append(cases, fmt.Sprintf("%s.SelRecv(%s)", rtName, text(u.X)))
			tok := c.Tok.String()
			if len(c.Lhs) == 2 {
				pre = fmt.Sprintf(" %s, %s %s %s.SelVal(%s, %s), %s;", text(c.Lhs[0]), text(c.Lhs[1]), tok, rtName, text(u.X), val, okv)
			} else {
				pre = fmt.Sprintf(" %s %s %s.SelVal(%s, %s);", text(c.Lhs[0]), tok, rtName, text(u.X), val)
			}
		}
		cls = append(cls, clause{cc: cc, idx: idx, prelude: pre})
	}
	hd := "false"
	if hasDefault {
		hd = "true"
	}
	args := hd
	if len(cases) > 0 {
		args += ", " + strings.Join(cases, ", ")
	}
	start := fc.off(fset, x.Select)
	lb := fc.off(fset, x.Body.Lbrace)
	fc.replace(start, lb+1-start, fmt.Sprintf("switch %s, %s, %s := %s.Select(%s); %s {", sel, val, okv, rtName, args, sel))
	for _, cl := range cls {
		cs := fc.off(fset, cl.cc.Case)
		colon := fc.off(fset, cl.cc.Colon)
		if cl.idx < 0 {
			fc.replace(cs, colon+1-cs, fmt.Sprintf("default: _, _ = %s, %s;", val, okv))
		} else {
			fc.replace(cs, colon+1-cs, fmt.Sprintf("case %d: _, _ = %s, %s;%s", cl.idx, val, okv, cl.prelude))
		}
	}
}

func collectHashFuncs(fset *token.FileSet, all []*fileCtx, rep *Report) {
	for _, fc := range all {
		if filepath.Dir(fc.rel) != "." {
			continue
		}
		for _, d := range fc.f.Decls {
			fd, ok := d.(*ast.FuncDecl)
			if !ok || fd.Body == nil || fd.Type.Results == nil || len(fd.Type.Results.List) != 1 || len(fd.Type.Results.List[0].Names) > 0 {
				continue
			}
			rt, ok := fd.Type.Results.List[0].Type.(*ast.Ident)
			if !ok || (rt.Name != "uint64" && rt.Name != "uint" && rt.Name != "uint32" && rt.Name != "uint16" && rt.Name != "uint8") {
				continue
			}
			ln := strings.ToLower(fd.Name.Name)
			byName := strings.Contains(ln, "hash") || strings.Contains(ln, "sum") || strings.Contains(ln, "crc") || strings.Contains(ln, "fnv") || strings.Contains(ln, "digest")
			if !byName && !looksLikeHash(fd) {
				continue
			}
			keyed := false
			for _, p := range fd.Type.Params.List {
				switch t := p.Type.(type) {
				case *ast.Ident:
					keyed = keyed || t.Name == "string"
				case *ast.ArrayType:
					if id, ok := t.Elt.(*ast.Ident); ok && id.Name == "byte" && t.Len == nil {
						keyed = true
					}
				}
			}
			if !keyed {
				continue
			}
			h := HashFunc{ID: len(rep.HashFuncs), Name: fd.Name.Name, File: fc.rel, Line: fset.Position(fd.Pos()).Line, Ret: rt.Name}
			ok2 := true
			ast.Inspect(fd.Body, func(n ast.Node) bool {
				switch x := n.(type) {
				case *ast.FuncLit:
					return false
				case *ast.ReturnStmt:
					if len(x.Results) != 1 {
						ok2 = false
						return false
					}
					h.rets = append(h.rets, [2]int{fset.Position(x.Results[0].Pos()).Offset, fset.Position(x.Results[0].End()).Offset})
				}
				return true
			})
			if ok2 && len(h.rets) > 0 {
				rep.HashFuncs = append(rep.HashFuncs, h)
			}
		}
		// inline mixing loops: `acc = (acc ^ x) * K`, `acc ^= x; acc *= K`, ... with the
		// accumulator declared before the loop, inside functions that are not
		// themselves hash functions
		isHashFn := map[string]bool{}
		for _, h := range rep.HashFuncs {
			if h.File == fc.rel {
				isHashFn[h.Name] = true
			}
		}
		for _, d := range fc.f.Decls {
			fd, ok := d.(*ast.FuncDecl)
			if !ok || fd.Body == nil || isHashFn[fd.Name.Name] {
				continue
			}
			ast.Inspect(fd.Body, func(n ast.Node) bool {
				var body *ast.BlockStmt
				switch x := n.(type) {
				case *ast.ForStmt:
					body = x.Body
				case *ast.RangeStmt:
					body = x.Body
				default:
					return true
				}
				loop := n
				acc := map[string][2]bool{} // name -> {xor seen, mul-by-big / shift seen}
				ast.Inspect(body, func(m ast.Node) bool {
					as, ok := m.(*ast.AssignStmt)
					if !ok || len(as.Lhs) != 1 || len(as.Rhs) != 1 {
						return true
					}
					id, ok := as.Lhs[0].(*ast.Ident)
					if !ok || id.Obj == nil || id.Obj.Pos() >= loop.Pos() {
						return true // not a plain local declared before the loop
					}
					st := acc[id.Name]
					switch as.Tok {
					case token.XOR_ASSIGN:
						st[0] = true
					case token.MUL_ASSIGN:
						if v, ok := intLit(as.Rhs[0]); ok && (v >= 256 || v < 0) {
							st[1] = true
						}
					case token.SHL_ASSIGN:
						st[1] = true
					case token.ASSIGN:
						ast.Inspect(as.Rhs[0], func(e ast.Node) bool {
							if be, ok := e.(*ast.BinaryExpr); ok {
								switch be.Op {
								case token.XOR:
									st[0] = true
								case token.MUL:
									if v, ok := intLit(be.Y); ok && (v >= 256 || v < 0) {
										st[1] = true
									} else if v, ok := intLit(be.X); ok && (v >= 256 || v < 0) {
										st[1] = true
									} else if _, isLit := ast.Unparen(be.Y).(*ast.BasicLit); isLit {
										// a literal too big for int64 (e.g. 0x9E3779B97F4A7C15)
										st[1] = true
									}
								}
							}
							return true
						})
					}
					acc[id.Name] = st
					return true
				})
				var names []string
				for name, st := range acc {
					if st[0] && st[1] {
						names = append(names, name)
					}
				}
				sort.Strings(names)
				for _, name := range names {
					rep.HashFuncs = append(rep.HashFuncs, HashFunc{ID: len(rep.HashFuncs), Name: fd.Name.Name, File: fc.rel, Line: fset.Position(loop.Pos()).Line,
						Ret: "inline", Inline: true, Var: name, after: fset.Position(loop.End()).Offset})
				}
				return true
			})
		}
	}
}

// looksLikeHash: a loop that mixes into an accumulator with multiply / xor /
// shift by a sizeable constant - the shape of FNV, djb2, murmur-style mixers -
// whatever the function is called.
func looksLikeHash(fd *ast.FuncDecl) bool {
	loop, mix := false, false
	bigConst := func(e ast.Expr) bool {
		v, ok := intLit(e)
		return ok && (v >= 16 || v < 0)
	}
	ast.Inspect(fd.Body, func(n ast.Node) bool {
		switch x := n.(type) {
		case *ast.ForStmt, *ast.RangeStmt:
			loop = true
		case *ast.AssignStmt:
			// multiplication or xor: shifting and or-ing bytes into a word is
			// PACKING (often lossless for the bounded inputs it is used on: a
			// fingerprint of at most five bytes, a verdict word), not hashing
			switch x.Tok {
			case token.MUL_ASSIGN, token.XOR_ASSIGN:
				mix = true
			}
		case *ast.BinaryExpr:
			switch x.Op {
			case token.MUL:
				if bigConst(x.X) || bigConst(x.Y) {
					mix = true
				}
			case token.XOR:
				mix = true
			}
		}
		return true
	})
	return loop && mix
}

// lenOfString reports whether a comparison involves len() of a string (input
// length thresholds are not shrunk: that would switch the guarded path on or
// off rather than stress it).
func lenOfString(be *ast.BinaryExpr, info *types.Info) bool {
	found := false
	ast.Inspect(be, func(n ast.Node) bool {
		if c, ok := n.(*ast.CallExpr); ok && len(c.Args) == 1 {
			if id, ok := c.Fun.(*ast.Ident); ok && id.Name == "len" && info != nil {
				if tv, ok := info.Types[c.Args[0]]; ok && tv.Type != nil {
					if b, ok := tv.Type.Underlying().(*types.Basic); ok && b.Info()&types.IsString != 0 {
						found = true
					}
				}
			}
		}
		return !found
	})
	return found
}
