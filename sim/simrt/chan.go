package simrt

import "unsafe"

// Channel seam. The instrumenter rewrites channel operations of the library
// into calls of these helpers; the state of every channel (buffer, wait
// queues, closed flag) lives in the scheduler, keyed by the channel's
// identity, so blocking, rendezvous and select are scheduler decisions.
// The real channel object is only used for its identity and capacity.
//
// Happens-before for ThreadSanitizer: every operation on a channel releases
// to and acquires from one sync address per channel, i.e. all operations on
// one channel are totally ordered. An operation that completes at once does
// both BEFORE it hands over to the scheduler (the scheduler performs it right
// then; where the task is parked afterwards must not order it after what others
// do meanwhile); an operation that had to wait acquires again when it is woken. That over-approximates Go's channel rules
// (it can hide a race that real channels would not order, it never invents one).

type selCase struct {
	send bool
	addr uintptr
	cap  int
	val  any
}

// SelCase is one case of a rewritten select statement.
type SelCase struct{ c selCase }

//go:norace
func chanID[T any](ch chan T) uintptr { return uintptr(*(*unsafe.Pointer)(unsafe.Pointer(&ch))) }

//go:norace
func chanSync(addr uintptr) unsafe.Pointer {
	return unsafe.Pointer(&chanSyncCells[(addr>>4)%uintptr(len(chanSyncCells))])
}

var chanSyncCells [256]uint64

// adopt: what was put into the REAL channel before the simulation took over
// (package init filling a free list or a semaphore) is moved into the model the
// first time the channel is met inside the simulation. Inside the simulation
// nothing is ever put into a real channel, so len(ch) > 0 means exactly that.
//
//go:norace
func adopt[T any](pch unsafe.Pointer, id uintptr) {
	ch := *(*chan T)(pch)
	if id == 0 || len(ch) == 0 {
		return
	}
	var items []any
	for len(ch) > 0 {
		select {
		case v := <-ch:
			items = append(items, v)
		default:
		}
	}
	Ask(ReqChanAdopt, OpChan, id, int64(cap(ch)), items)
}

//go:norace
func ChanSend[T any](ch chan<- T, v T) {
	id := uintptr(*(*unsafe.Pointer)(unsafe.Pointer(&ch)))
	if !InSim() {
		ch <- v
		return
	}
	if id == 0 {
		Ask(ReqChanBlockForever, OpChan, 0, 0, nil)
		return
	}
	adopt[T](unsafe.Pointer(&ch), id)
	RaceReleaseMerge(chanSync(id))
	RaceAcquire(chanSync(id))
	n, _, _ := Ask(ReqSelect, OpChan, 0, 0, []selCase{{send: true, addr: id, cap: cap(ch), val: v}})
	if n&ChanWaited != 0 {
		n &^= ChanWaited
		RaceAcquire(chanSync(id))
	}
	if n&2 != 0 {
		panic("send on closed channel")
	}
	Progress()
}

//go:norace
func ChanRecv2[T any](ch <-chan T) (T, bool) {
	id := uintptr(*(*unsafe.Pointer)(unsafe.Pointer(&ch)))
	if !InSim() {
		v, ok := <-ch
		return v, ok
	}
	var zero T
	if id == 0 {
		Ask(ReqChanBlockForever, OpChan, 0, 0, nil)
		return zero, false
	}
	adopt[T](unsafe.Pointer(&ch), id)
	RaceReleaseMerge(chanSync(id))
	RaceAcquire(chanSync(id))
	n, v, _ := Ask(ReqSelect, OpChan, 0, 0, []selCase{{addr: id, cap: cap(ch)}})
	if n&ChanWaited != 0 {
		n &^= ChanWaited
		RaceAcquire(chanSync(id))
	}
	Progress()
	if n&1 == 0 || v == nil {
		if n&1 != 0 {
			return zero, true // a nil interface value was sent
		}
		return zero, false
	}
	return v.(T), true
}

//go:norace
func ChanRecv[T any](ch <-chan T) T {
	v, _ := ChanRecv2(ch)
	return v
}

//go:norace
func ChanClose[T any](ch chan<- T) {
	id := uintptr(*(*unsafe.Pointer)(unsafe.Pointer(&ch)))
	if !InSim() {
		close(ch)
		return
	}
	if id == 0 {
		panic("close of nil channel")
	}
	RaceReleaseMerge(chanSync(id))
	n, _, _ := Ask(ReqChanClose, OpChan, id, 0, nil)
	if n != 0 {
		panic("close of closed channel")
	}
	Progress()
}

// ChanLen replaces len(ch).
//
//go:norace
func ChanLen[T any](ch chan T) int {
	if !InSim() {
		return len(ch)
	}
	adopt[T](unsafe.Pointer(&ch), chanID(ch))
	n, _, _ := Ask(ReqChanLen, OpChan, chanID(ch), 0, nil)
	return int(n)
}

// SelRecv / SelSend build the cases of a rewritten select.
//
//go:norace
func SelRecv[T any](ch <-chan T) SelCase {
	if InSim() {
		adopt[T](unsafe.Pointer(&ch), uintptr(*(*unsafe.Pointer)(unsafe.Pointer(&ch))))
	}
	return SelCase{selCase{addr: uintptr(*(*unsafe.Pointer)(unsafe.Pointer(&ch))), cap: cap(ch)}}
}

//go:norace
func SelSend[T any](ch chan<- T, v T) SelCase {
	if InSim() {
		adopt[T](unsafe.Pointer(&ch), uintptr(*(*unsafe.Pointer)(unsafe.Pointer(&ch))))
	}
	return SelCase{selCase{send: true, addr: uintptr(*(*unsafe.Pointer)(unsafe.Pointer(&ch))), cap: cap(ch), val: v}}
}

// Select performs a rewritten select statement: it returns the index of the
// case that fired (-1 = default), the received value and the ok flag.
//
//go:norace
func Select(hasDefault bool, cases ...SelCase) (int, any, bool) {
	if !InSim() {
		panic("verifsimrt.Select outside a simulation")
	}
	cs := make([]selCase, len(cases))
	for i, c := range cases {
		cs[i] = c.c
		if c.c.addr != 0 {
			RaceReleaseMerge(chanSync(c.c.addr))
			RaceAcquire(chanSync(c.c.addr))
		}
	}
	def := int64(0)
	if hasDefault {
		def = 1
	}
	n, v, _ := Ask(ReqSelect, OpChan, 0, def, cs)
	if n < 0 {
		return -1, nil, false
	}
	waited := n&ChanWaited != 0
	n &^= ChanWaited
	idx := int(n >> 2)
	if waited && cs[idx].addr != 0 {
		RaceAcquire(chanSync(cs[idx].addr))
	}
	if cs[idx].send && n&2 != 0 {
		panic("send on closed channel")
	}
	Progress()
	return idx, v, n&1 != 0
}

// SelVal converts the value received by Select to the element type of ch.
//
//go:norace
func SelVal[T any](ch <-chan T, v any) T {
	if v == nil {
		var zero T
		return zero
	}
	return v.(T)
}

// ChanMake wraps make(chan T, n): the scheduler drops any state recorded for
// an earlier (garbage-collected) channel that lived at the same address.
//
//go:norace
func ChanMake[T any](ch chan T) chan T {
	if InSim() {
		Ask(ReqChanMake, OpChan, chanID(ch), 0, nil)
	}
	return ch
}
