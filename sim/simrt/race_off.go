//go:build !race

package simrt

import "unsafe"

// RaceBuild reports whether the binary was built with -race.
const RaceBuild = false

func raceDisable()                      {}
func raceEnable()                       {}
func RaceErrors() int                   { return 0 }
func RaceAcquire(p unsafe.Pointer)      {}
func RaceRelease(p unsafe.Pointer)      {}
func RaceReleaseMerge(p unsafe.Pointer) {}
