// Package simmaphash replaces hash/maphash in the instrumented copy: seeds are
// drawn from the run's PRNG (or are a fixed constant outside a run, e.g. in
// package initialisers), so hash values - and everything the library derives
// from them, like cache slots - are reproducible from the seed of a run.
package simmaphash

import (
	"verif/sim/simrt"
)

type Seed struct{ s uint64 }

func MakeSeed() Seed {
	n, _, ok := simrt.Ask(simrt.ReqRand, simrt.OpRand, 0, 0, nil)
	if !ok {
		return Seed{s: 0x9e3779b97f4a7c15}
	}
	return Seed{s: uint64(n)<<1 | 1}
}

func mix(h, v uint64) uint64 {
	h ^= v
	h *= 0xff51afd7ed558ccd
	h ^= h >> 32
	return h
}

func hashBytes(seed uint64, b []byte) uint64 {
	h := seed ^ 0xcbf29ce484222325
	for len(b) >= 8 {
		v := uint64(b[0]) | uint64(b[1])<<8 | uint64(b[2])<<16 | uint64(b[3])<<24 | uint64(b[4])<<32 | uint64(b[5])<<40 | uint64(b[6])<<48 | uint64(b[7])<<56
		h = mix(h, v)
		b = b[8:]
	}
	var v uint64
	for i, c := range b {
		v |= uint64(c) << (8 * uint(i))
	}
	h = mix(h, v^uint64(len(b))<<56)
	h ^= h >> 29
	h *= 0xc4ceb9fe1a85ec53
	h ^= h >> 32
	return h
}

func Bytes(seed Seed, b []byte) uint64  { return hashBytes(seed.s, b) }
func String(seed Seed, s string) uint64 { return hashBytes(seed.s, []byte(s)) }

func Comparable[T comparable](seed Seed, v T) uint64 {
	panic("simmaphash.Comparable is not modelled")
}

// Hash mirrors maphash.Hash.
type Hash struct {
	seed Seed
	set  bool
	buf  []byte
}

func (h *Hash) init() {
	if !h.set {
		h.seed = MakeSeed()
		h.set = true
	}
}
func (h *Hash) Write(b []byte) (int, error) {
	h.init()
	h.buf = append(h.buf, b...)
	return len(b), nil
}
func (h *Hash) WriteString(s string) (int, error) {
	h.init()
	h.buf = append(h.buf, s...)
	return len(s), nil
}
func (h *Hash) WriteByte(b byte) error { h.init(); h.buf = append(h.buf, b); return nil }
func (h *Hash) Seed() Seed             { h.init(); return h.seed }
func (h *Hash) SetSeed(s Seed)         { h.seed = s; h.set = true; h.buf = h.buf[:0] }
func (h *Hash) Reset()                 { h.init(); h.buf = h.buf[:0] }
func (h *Hash) Sum64() uint64          { h.init(); return hashBytes(h.seed.s, h.buf) }
func (h *Hash) Size() int              { return 8 }
func (h *Hash) BlockSize() int         { return 128 }
func (h *Hash) Sum(b []byte) []byte {
	x := h.Sum64()
	return append(b, byte(x>>56), byte(x>>48), byte(x>>40), byte(x>>32), byte(x>>24), byte(x>>16), byte(x>>8), byte(x))
}
