// Package simrand replaces math/rand in the instrumented copy: the global
// generator draws from the run's PRNG through the scheduler. Explicitly
// seeded generators (rand.New(rand.NewSource(x))) stay real: they are
// deterministic given their seed.
package simrand

import (
	"math/rand"

	"verif/sim/simrt"
)

type (
	Rand     = rand.Rand
	Source   = rand.Source
	Source64 = rand.Source64
	Zipf     = rand.Zipf
)

func New(src Source) *Rand                             { return rand.New(src) }
func NewSource(seed int64) Source                      { return rand.NewSource(seed) }
func NewZipf(r *Rand, s, v float64, imax uint64) *Zipf { return rand.NewZipf(r, s, v, imax) }

type src struct{}

func (src) Int63() int64 {
	n, _, ok := simrt.Ask(simrt.ReqRand, simrt.OpRand, 0, 0, nil)
	if !ok {
		return rand.Int63()
	}
	return n
}
func (s src) Uint64() uint64 { return uint64(s.Int63())>>31 | uint64(s.Int63())<<32 }
func (src) Seed(int64)       {}

var g = rand.New(src{})

func Seed(int64)                         {}
func Int63() int64                       { return g.Int63() }
func Uint32() uint32                     { return g.Uint32() }
func Uint64() uint64                     { return g.Uint64() }
func Int31() int32                       { return g.Int31() }
func Int() int                           { return g.Int() }
func Int63n(n int64) int64               { return g.Int63n(n) }
func Int31n(n int32) int32               { return g.Int31n(n) }
func Intn(n int) int                     { return g.Intn(n) }
func Float64() float64                   { return g.Float64() }
func Float32() float32                   { return g.Float32() }
func Perm(n int) []int                   { return g.Perm(n) }
func Shuffle(n int, swap func(i, j int)) { g.Shuffle(n, swap) }
func NormFloat64() float64               { return g.NormFloat64() }
func ExpFloat64() float64                { return g.ExpFloat64() }
func Read(p []byte) (int, error) {
	for i := range p {
		p[i] = byte(g.Int63())
	}
	return len(p), nil
}
