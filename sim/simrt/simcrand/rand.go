// Package simcrand replaces crypto/rand in the instrumented copy (bytes come
// from the run's PRNG; outside a run from a fixed stream).
package simcrand

import (
	"io"
	"math/big"

	"verif/sim/simrt"
)

type reader struct{}

var fixed = simrt.NewRNG(0x5eed)

func (reader) Read(p []byte) (int, error) {
	for i := range p {
		n, _, ok := simrt.Ask(simrt.ReqRand, simrt.OpRand, 0, 0, nil)
		if !ok {
			n = int64(fixed.U64() >> 1)
		}
		p[i] = byte(n >> 7)
	}
	return len(p), nil
}

var Reader io.Reader = reader{}

func Read(p []byte) (int, error) { return Reader.Read(p) }

func Int(r io.Reader, max *big.Int) (*big.Int, error) {
	b := make([]byte, (max.BitLen()+7)/8+8)
	r.Read(b)
	n := new(big.Int).SetBytes(b)
	return n.Mod(n, max), nil
}

func Text(n int) string {
	const a = "ABCDEFGHIJKLMNOPQRSTUVWXYZ234567"
	b := make([]byte, n)
	Reader.Read(b)
	for i := range b {
		b[i] = a[b[i]%32]
	}
	return string(b)
}
