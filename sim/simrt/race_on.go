//go:build race

package simrt

import (
	"runtime"
	"unsafe"
)

// RaceBuild reports whether the binary was built with -race.
const RaceBuild = true

func raceDisable()                      { runtime.RaceDisable() }
func raceEnable()                       { runtime.RaceEnable() }
func RaceErrors() int                   { return runtime.RaceErrors() }
func RaceAcquire(p unsafe.Pointer)      { runtime.RaceAcquire(p) }
func RaceRelease(p unsafe.Pointer)      { runtime.RaceRelease(p) }
func RaceReleaseMerge(p unsafe.Pointer) { runtime.RaceReleaseMerge(p) }
