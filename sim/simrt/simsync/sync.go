// Package simsync replaces package sync in the instrumented scratch copy of
// the library. Every operation first gives the scheduler a chance to switch
// (simrt.SyncPoint) and then performs the REAL primitive in a non-blocking
// form, so the happens-before edges ThreadSanitizer sees are exactly the ones
// the real primitive creates; blocking is turned into "park until some other
// task made progress, then retry".
package simsync

import (
	"fmt"
	"sort"
	"sync"
	"sync/atomic"
	"unsafe"

	"verif/sim/simrt"
)

// Locker is sync.Locker.
type Locker = sync.Locker

func addr[T any](p *T) uintptr { return uintptr(unsafe.Pointer(p)) }

// ---------------------------------------------------------------- Mutex

type Mutex struct{ mu sync.Mutex }

func (m *Mutex) Lock() {
	simrt.SyncPoint(simrt.OpLock, addr(m))
	for !m.mu.TryLock() {
		simrt.Block(addr(m))
	}
}

func (m *Mutex) TryLock() bool {
	simrt.SyncPoint(simrt.OpLock, addr(m))
	return m.mu.TryLock()
}

func (m *Mutex) Unlock() {
	m.mu.Unlock()
	simrt.Progress()
	simrt.SyncPoint(simrt.OpUnlock, addr(m))
}

// ---------------------------------------------------------------- RWMutex

// RWMutex models Go's writer preference faithfully: "a blocked Lock call
// excludes new readers from acquiring the lock" (package sync). A reader that
// re-acquires RLock while a writer waits therefore deadlocks here exactly as
// it does with the real RWMutex.
type RWMutex struct {
	mu      sync.RWMutex
	waiting atomic.Int32 // writers blocked in Lock
}

func (m *RWMutex) Lock() {
	simrt.SyncPoint(simrt.OpLock, addr(m))
	if m.mu.TryLock() {
		return
	}
	m.waiting.Add(1)
	for !m.mu.TryLock() {
		simrt.Block(addr(m))
	}
	m.waiting.Add(-1)
	simrt.Progress()
}
func (m *RWMutex) TryLock() bool {
	simrt.SyncPoint(simrt.OpLock, addr(m))
	return m.mu.TryLock()
}
func (m *RWMutex) Unlock() {
	m.mu.Unlock()
	simrt.Progress()
	simrt.SyncPoint(simrt.OpUnlock, addr(m))
}
func (m *RWMutex) RLock() {
	simrt.SyncPoint(simrt.OpRLock, addr(m))
	for m.waiting.Load() > 0 || !m.mu.TryRLock() {
		simrt.Block(addr(m))
	}
}
func (m *RWMutex) TryRLock() bool {
	simrt.SyncPoint(simrt.OpRLock, addr(m))
	if m.waiting.Load() > 0 {
		return false
	}
	return m.mu.TryRLock()
}
func (m *RWMutex) RUnlock() {
	m.mu.RUnlock()
	simrt.Progress()
	simrt.SyncPoint(simrt.OpRUnlock, addr(m))
}
func (m *RWMutex) RLocker() Locker { return (*rlocker)(m) }

type rlocker RWMutex

func (r *rlocker) Lock()   { (*RWMutex)(r).RLock() }
func (r *rlocker) Unlock() { (*RWMutex)(r).RUnlock() }

// ---------------------------------------------------------------- Once

type Once struct {
	done atomic.Uint32
	m    Mutex
}

func (o *Once) Do(f func()) {
	simrt.SyncPoint(simrt.OpOnce, addr(o))
	if o.done.Load() == 0 {
		o.doSlow(f)
	}
}

func (o *Once) doSlow(f func()) {
	o.m.Lock()
	defer o.m.Unlock()
	if o.done.Load() == 0 {
		defer func() { o.done.Store(1); simrt.Progress() }()
		f()
	}
}

func OnceFunc(f func()) func() {
	var (
		once  Once
		valid bool
		p     any
	)
	g := func() {
		defer func() {
			p = recover()
			if !valid {
				panic(p)
			}
		}()
		f()
		f = nil
		valid = true
	}
	return func() {
		once.Do(g)
		if !valid {
			panic(p)
		}
	}
}

func OnceValue[T any](f func() T) func() T {
	var (
		once   Once
		valid  bool
		p      any
		result T
	)
	g := func() {
		defer func() {
			p = recover()
			if !valid {
				panic(p)
			}
		}()
		result = f()
		f = nil
		valid = true
	}
	return func() T {
		once.Do(g)
		if !valid {
			panic(p)
		}
		return result
	}
}

func OnceValues[T1, T2 any](f func() (T1, T2)) func() (T1, T2) {
	var (
		once  Once
		valid bool
		p     any
		r1    T1
		r2    T2
	)
	g := func() {
		defer func() {
			p = recover()
			if !valid {
				panic(p)
			}
		}()
		r1, r2 = f()
		f = nil
		valid = true
	}
	return func() (T1, T2) {
		once.Do(g)
		if !valid {
			panic(p)
		}
		return r1, r2
	}
}

// ---------------------------------------------------------------- Pool

// Pool: which item a Get returns (or a miss) is decided by the scheduler.
// The race annotations are the ones sync.Pool itself performs.
type Pool struct {
	New  func() any
	real sync.Pool // used outside a simulation only
}

var poolRaceHash [128]uint64

func poolRaceAddr(x any) unsafe.Pointer {
	ptr := simrt.EfaceData(x)
	h := uint32((uint64(uint32(ptr)) * 0x85ebca6b) >> 16)
	return unsafe.Pointer(&poolRaceHash[h%uint32(len(poolRaceHash))])
}

func (p *Pool) Put(x any) {
	if x == nil {
		return
	}
	if !simrt.InSim() {
		p.real.Put(x)
		return
	}
	simrt.RaceReleaseMerge(poolRaceAddr(x))
	simrt.Ask(simrt.ReqPoolPut, simrt.OpPool, addr(p), 0, x)
	simrt.Progress()
}

func (p *Pool) Get() any {
	if !simrt.InSim() {
		if x := p.real.Get(); x != nil {
			return x
		}
		if p.New != nil {
			return p.New()
		}
		return nil
	}
	_, x, _ := simrt.Ask(simrt.ReqPoolGet, simrt.OpPool, addr(p), 0, nil)
	if x != nil {
		simrt.RaceAcquire(poolRaceAddr(x))
		return x
	}
	if p.New != nil {
		return p.New()
	}
	return nil
}

// ---------------------------------------------------------------- Map

// Map delegates to the real sync.Map (which never blocks across one of our
// yields); Range visits entries in a deterministic order.
type Map struct{ m sync.Map }

func (m *Map) pt(write bool) {
	simrt.SyncPoint(simrt.OpMap, addr(m))
	if write {
		simrt.Progress()
	}
}
func (m *Map) Load(k any) (any, bool) { m.pt(false); return m.m.Load(k) }
func (m *Map) Store(k, v any)         { m.pt(true); m.m.Store(k, v) }
func (m *Map) Clear()                 { m.pt(true); m.m.Clear() }
func (m *Map) LoadOrStore(k, v any) (any, bool) {
	m.pt(true)
	return m.m.LoadOrStore(k, v)
}
func (m *Map) LoadAndDelete(k any) (any, bool) { m.pt(true); return m.m.LoadAndDelete(k) }
func (m *Map) Delete(k any)                    { m.pt(true); m.m.Delete(k) }
func (m *Map) Swap(k, v any) (any, bool)       { m.pt(true); return m.m.Swap(k, v) }
func (m *Map) CompareAndSwap(k, o, n any) bool { m.pt(true); return m.m.CompareAndSwap(k, o, n) }
func (m *Map) CompareAndDelete(k, o any) bool  { m.pt(true); return m.m.CompareAndDelete(k, o) }
func (m *Map) Range(f func(k, v any) bool) {
	m.pt(false)
	type kv struct {
		k, v any
		s    string
	}
	var all []kv
	m.m.Range(func(k, v any) bool {
		all = append(all, kv{k, v, fmt.Sprintf("%T:%v", k, k)})
		return true
	})
	sort.SliceStable(all, func(i, j int) bool { return all[i].s < all[j].s })
	for _, e := range all {
		if !f(e.k, e.v) {
			return
		}
	}
}

// ---------------------------------------------------------------- WaitGroup

type WaitGroup struct{ n atomic.Int64 }

func (w *WaitGroup) Add(d int) {
	simrt.SyncPoint(simrt.OpWaitGroup, addr(w))
	simrt.RaceReleaseMerge(unsafe.Pointer(w))
	if w.n.Add(int64(d)) < 0 {
		panic("sync: negative WaitGroup counter")
	}
	simrt.Progress()
}
func (w *WaitGroup) Done() { w.Add(-1) }
func (w *WaitGroup) Wait() {
	simrt.SyncPoint(simrt.OpWaitGroup, addr(w))
	for w.n.Load() > 0 {
		simrt.Block(addr(w))
	}
	simrt.RaceAcquire(unsafe.Pointer(w))
}

// ---------------------------------------------------------------- Cond

type Cond struct {
	L Locker
}

func NewCond(l Locker) *Cond { return &Cond{L: l} }

func (c *Cond) Wait() {
	if !simrt.InSim() {
		panic("simsync.Cond.Wait outside simulation")
	}
	// as the real Cond: first join the notify list, then unlock, then suspend
	simrt.Ask(simrt.ReqCondAdd, simrt.OpCond, addr(c), 0, nil)
	c.L.Unlock()
	simrt.Ask(simrt.ReqCondWait, simrt.OpCond, addr(c), 0, nil)
	simrt.RaceAcquire(unsafe.Pointer(c))
	c.L.Lock()
}
func (c *Cond) Signal() {
	simrt.RaceReleaseMerge(unsafe.Pointer(c))
	simrt.Ask(simrt.ReqCondSignal, simrt.OpCond, addr(c), 0, nil)
}
func (c *Cond) Broadcast() {
	simrt.RaceReleaseMerge(unsafe.Pointer(c))
	simrt.Ask(simrt.ReqCondSignal, simrt.OpCond, addr(c), 1, nil)
}
