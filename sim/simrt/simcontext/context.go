// Package simcontext replaces package context in the instrumented copy:
// cancellation closes the Done channel through the simulator's channel seam
// and deadlines are timers on the simulated clock. The Context interface is
// the standard one, so values still flow to and from code that imports the
// real package.
package simcontext

import (
	"context"
	"sync/atomic"
	"time"

	"verif/sim/simrt"
	"verif/sim/simrt/simsync"
	"verif/sim/simrt/simtime"
)

type (
	Context         = context.Context
	CancelFunc      = context.CancelFunc
	CancelCauseFunc = context.CancelCauseFunc
)

var (
	Canceled         = context.Canceled
	DeadlineExceeded = context.DeadlineExceeded
)

func Background() Context { return context.Background() }
func TODO() Context       { return context.TODO() }

func WithValue(parent Context, key, val any) Context { return context.WithValue(parent, key, val) }
func Cause(c Context) error                          { return context.Cause(c) }

type simCtx struct {
	parent   Context
	done     chan struct{}
	mu       simsync.Mutex
	err      error
	children []*simCtx
	deadline time.Time
	hasDL    bool
	timer    *simtime.Timer
}

func (c *simCtx) Deadline() (time.Time, bool) {
	if c.hasDL {
		return c.deadline, true
	}
	return c.parent.Deadline()
}
func (c *simCtx) Done() <-chan struct{} { return c.done }
func (c *simCtx) Err() error {
	c.mu.Lock()
	defer c.mu.Unlock()
	return c.err
}
func (c *simCtx) Value(key any) any { return c.parent.Value(key) }

func (c *simCtx) cancel(err error) {
	c.mu.Lock()
	if c.err != nil {
		c.mu.Unlock()
		return
	}
	c.err = err
	kids := c.children
	c.children = nil
	tm := c.timer
	c.mu.Unlock()
	simrt.ChanClose(c.done)
	if tm != nil {
		tm.Stop()
	}
	for _, k := range kids {
		k.cancel(err)
	}
}

func newCtx(parent Context) *simCtx {
	c := &simCtx{parent: parent, done: simrt.ChanMake(make(chan struct{}))}
	if p, ok := parent.(*simCtx); ok {
		p.mu.Lock()
		if p.err != nil {
			err := p.err
			p.mu.Unlock()
			c.cancel(err)
			return c
		}
		p.children = append(p.children, c)
		p.mu.Unlock()
	} else if parent.Err() != nil {
		c.cancel(parent.Err())
	}
	return c
}

func WithCancel(parent Context) (Context, CancelFunc) {
	c := newCtx(parent)
	return c, func() { c.cancel(Canceled) }
}

func WithCancelCause(parent Context) (Context, CancelCauseFunc) {
	c := newCtx(parent)
	return c, func(cause error) { c.cancel(Canceled) }
}

func WithDeadline(parent Context, d time.Time) (Context, CancelFunc) {
	return WithTimeout(parent, simtime.Until(d))
}

func WithTimeout(parent Context, d time.Duration) (Context, CancelFunc) {
	c := newCtx(parent)
	c.deadline, c.hasDL = simtime.Now().Add(d), true
	if d <= 0 {
		c.cancel(DeadlineExceeded)
		return c, func() {}
	}
	c.mu.Lock()
	if c.err == nil {
		c.timer = simtime.AfterFunc(d, func() { c.cancel(DeadlineExceeded) })
	}
	c.mu.Unlock()
	return c, func() { c.cancel(Canceled) }
}

func WithoutCancel(parent Context) Context { return context.WithoutCancel(parent) }

func AfterFunc(ctx Context, f func()) (stop func() bool) {
	var stopped atomic.Bool
	simrt.Go(func() {
		simrt.ChanRecv(ctx.Done())
		if !stopped.Load() {
			f()
		}
	})
	return func() bool { return !stopped.Swap(true) }
}

func WithTimeoutCause(parent Context, d time.Duration, cause error) (Context, CancelFunc) {
	return WithTimeout(parent, d)
}

func WithDeadlineCause(parent Context, d time.Time, cause error) (Context, CancelFunc) {
	return WithDeadline(parent, d)
}
