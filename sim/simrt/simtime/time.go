// Package simtime provides the clock-reading functions of package time over
// the simulated clock (selectors time.Now/Since/Until/Sleep are redirected here
// by the instrumenter; everything else of package time stays real).
package simtime

import (
	"time"
	"unsafe"

	"verif/sim/simrt"
)

func chanAddr(ch chan time.Time) uintptr          { return uintptr(*(*unsafe.Pointer)(unsafe.Pointer(&ch))) }
func unsafePtr(p *simrt.TimerSpec) unsafe.Pointer { return unsafe.Pointer(p) }

func Now() time.Time {
	ns, _, ok := simrt.Ask(simrt.ReqClock, simrt.OpClock, 0, 0, nil)
	if !ok {
		if simrt.Unmanaged() {
			return time.Now()
		}
		return time.Unix(0, simrt.SimEpoch) // package initialisers of a simulated process
	}
	return time.Unix(0, ns)
}

func Since(t time.Time) time.Duration { return Now().Sub(t) }
func Until(t time.Time) time.Duration { return t.Sub(Now()) }

func Sleep(d time.Duration) {
	if _, _, ok := simrt.Ask(simrt.ReqSleep, simrt.OpClock, 0, int64(d), nil); !ok {
		time.Sleep(d)
	}
}

func init() {
	simrt.TimeValue = func(ns int64) any { return time.Unix(0, ns) }
}

// Timer mirrors time.Timer over the simulated clock.
type Timer struct {
	C    <-chan time.Time
	spec *simrt.TimerSpec
	real *time.Timer // unmanaged processes only
}

//go:norace
func newTimer(d time.Duration, period time.Duration, f func()) *Timer {
	t := &Timer{}
	var ch chan time.Time
	if f == nil {
		ch = simrt.ChanMake(make(chan time.Time, 1))
		t.C = ch
	}
	t.spec = &simrt.TimerSpec{Delay: int64(d), Period: int64(period), Fn: f}
	if ch != nil {
		t.spec.Ch = chanAddr(ch)
		t.spec.ChCap = 1
	}
	if f != nil {
		// timer creation happens-before the function runs
		inner := f
		spec := t.spec
		simrt.RaceReleaseMerge(unsafePtr(spec))
		t.spec.Fn = func() { simrt.RaceAcquire(unsafePtr(spec)); inner() }
	}
	if _, _, ok := simrt.Ask(simrt.ReqTimerNew, simrt.OpClock, 0, int64(d), t.spec); !ok {
		simrt.NewTimerOutsideRun(t.spec)
	}
	return t
}

//go:norace
func NewTimer(d time.Duration) *Timer {
	if simrt.Unmanaged() {
		rt := time.NewTimer(d)
		return &Timer{C: rt.C, real: rt}
	}
	return newTimer(d, 0, nil)
}

//go:norace
func AfterFunc(d time.Duration, f func()) *Timer {
	if simrt.Unmanaged() {
		return &Timer{real: time.AfterFunc(d, f)}
	}
	return newTimer(d, 0, f)
}

//go:norace
func After(d time.Duration) <-chan time.Time { return NewTimer(d).C }

//go:norace
func (t *Timer) Stop() bool {
	if t.real != nil {
		return t.real.Stop()
	}
	n, _, ok := simrt.Ask(simrt.ReqTimerStop, simrt.OpClock, 0, t.spec.ID, nil)
	if !ok {
		was := t.spec.Active
		t.spec.Active = false
		return was
	}
	return n == 1
}

//go:norace
func (t *Timer) Reset(d time.Duration) bool {
	if t.real != nil {
		return t.real.Reset(d)
	}
	n, _, ok := simrt.Ask(simrt.ReqTimerReset, simrt.OpClock, uintptr(d), t.spec.ID, nil)
	if !ok {
		t.spec.Delay = int64(d)
		return false
	}
	return n == 1
}

// Ticker mirrors time.Ticker.
type Ticker struct {
	C    <-chan time.Time
	t    *Timer
	real *time.Ticker
}

//go:norace
func NewTicker(d time.Duration) *Ticker {
	if d <= 0 {
		panic("non-positive interval for NewTicker")
	}
	if simrt.Unmanaged() {
		rt := time.NewTicker(d)
		return &Ticker{C: rt.C, real: rt}
	}
	t := newTimer(d, d, nil)
	return &Ticker{C: t.C, t: t}
}

//go:norace
func (k *Ticker) Stop() {
	if k.real != nil {
		k.real.Stop()
		return
	}
	k.t.Stop()
}

//go:norace
func (k *Ticker) Reset(d time.Duration) {
	if k.real != nil {
		k.real.Reset(d)
		return
	}
	k.t.spec.Period = int64(d)
	k.t.Reset(d)
}

//go:norace
func Tick(d time.Duration) <-chan time.Time {
	if d <= 0 {
		return nil
	}
	return NewTicker(d).C
}
