// Package simtime provides the clock-reading functions of package time over
// the simulated clock (selectors time.Now/Since/Until/Sleep are redirected here
// by the instrumenter; everything else of package time stays real).
package simtime

import (
	"time"

	"verif/sim/simrt"
)

func Now() time.Time {
	ns, _, ok := simrt.Ask(simrt.ReqClock, simrt.OpClock, 0, 0, nil)
	if !ok {
		return time.Now()
	}
	return time.Unix(0, ns)
}

func Since(t time.Time) time.Duration { return Now().Sub(t) }
func Until(t time.Time) time.Duration { return t.Sub(Now()) }

func Sleep(d time.Duration) {
	if _, _, ok := simrt.Ask(simrt.ReqSleep, simrt.OpClock, 0, int64(d), nil); !ok {
		time.Sleep(d)
	}
}
