// Package simrt is the runtime of the deterministic simulator: the yield points
// that the instrumenter inserts into a scratch copy of the library call into
// this package, and the scheduler in sched.go decides who runs.
//
// Design rule L1 (DESIGN.md §3.3): every function that executes on a *task*
// goroutine and touches simulator state is //go:norace and uses only
// fixed-size values (no append, copy, map access, or stdlib that is itself
// race-instrumented), so ThreadSanitizer never sees harness memory from a task
// goroutine. All bookkeeping that needs dynamic memory lives on the scheduler
// goroutine.
package simrt

import (
	"cmp"
	"os"
	"reflect"
	"runtime"
	"slices"
	"strconv"
	"sync"
	"sync/atomic"
	"time"
	"unsafe"
)

// ReqKind is the reason a task hands control to the scheduler.
type ReqKind uint8

const (
	ReqYield            ReqKind = iota // step budget exhausted at an ordinary yield site
	ReqSync                            // about to perform a synchronisation operation
	ReqBlock                           // cannot proceed until the progress epoch changes
	ReqDone                            // task finished (sent with race sync ENABLED)
	ReqPoolGet                         // addr = pool; reply.val = item or nil
	ReqPoolPut                         // addr = pool; val = item
	ReqClock                           // reply.n = simulated nanoseconds
	ReqSleep                           // n = duration
	ReqRand                            // reply.n = 63 random bits from the run's PRNG
	ReqSpawn                           // val = func() to run as a new task
	ReqCondAdd                         // addr = cond; join the notify list (before unlocking L)
	ReqCondWait                        // addr = cond; block until signalled
	ReqCondSignal                      // addr = cond; n = 0 signal, 1 broadcast
	ReqSelect                          // val = []selCase; n = 1 if there is a default; reply.n = idx<<2 | closedSend<<1 | ok, or -1
	ReqChanClose                       // addr = channel
	ReqChanLen                         // addr = channel
	ReqChanBlockForever                // operation on a nil channel
	ReqChanMake                        // addr = channel: forget stale state
	ReqTimerNew                        // val = *TimerSpec; n = delay ns; reply.n = timer id
	ReqTimerStop                       // n = id; reply.n = 1 if it was active
	ReqTimerReset                      // n = id, addr = delay ns; reply.n = 1 if it was active
	ReqChanAdopt                       // addr = channel, n = cap, val = []any buffered before the simulation started
	ReqGC                              // the library asked for a collection (runtime.GC, debug.FreeOSMemory)
	ReqMemInfo                         // reply.n = pressure level<<48 | process GC count<<32 | live tasks
)

// Sync operation kinds (request.n of a ReqSync), used for statistics only.
const (
	OpLock = iota
	OpUnlock
	OpRLock
	OpRUnlock
	OpOnce
	OpAtomic
	OpMap
	OpWaitGroup
	OpGosched
	OpChan
	OpPool
	OpClock
	OpRand
	OpCond
	OpSpawn
	NumOps
)

var OpNames = [NumOps]string{"lock", "unlock", "rlock", "runlock", "once", "atomic", "syncmap", "waitgroup", "gosched", "chan", "pool", "clock", "rand", "cond", "spawn"}

type request struct {
	t    *Task
	kind ReqKind
	addr uintptr
	n    int64
	val  any
}

type reply struct {
	budget int64
	n      int64
	val    any
}

// MaxSites bounds the number of instrumented yield sites.
const MaxSites = 1 << 16

// State shared between the scheduler goroutine and the (single) running task.
// Only ever touched from //go:norace functions on task goroutines.
var (
	cur       *Task        // the task currently allowed to run (nil outside a run)
	toSched   chan request // tasks -> scheduler, unbuffered
	steps     int64        // global step counter = simulated time
	progress  int64        // progress epoch: bumped by every unlock/store/put/signal
	siteHits  [MaxSites]uint32
	inSim     bool // a run is in progress
	syncCount [NumOps]int64

	callsDoneAll int64

	// timers the library created outside any run (package initialisers)
	pendingTimers [64]*TimerSpec
	pendingTN     int

	// goroutines the library started outside any run (package initialisers,
	// lazily started helpers that outlive a run): adopted by the next run
	pendingBG [64]*Task
	pendingN  int
)

// Task is one simulated caller goroutine.
type Task struct {
	ID     int
	resume chan reply

	// touched on the task goroutine (norace) and read by the scheduler while parked
	budget     int64
	steps      int64
	callsBegun int32
	callsDone  int32
	inCall     bool

	// scheduler-only
	state      taskState
	blockEpoch int64
	blockAddr  uintptr
	pend       reply // value part of the next reply
	unborn     bool  // caller task whose goroutine has not been created yet
	reqs       int64 // requests other than plain yields this task has made (sync operations, pool, clock, channels...)
	prio       int
	parent     int
	fn         func() // body for spawned (library-created) tasks
	wakeAt     int64  // simulated ns at which a sleeping task becomes runnable
	syncCell   uint64 // race-detector sync address, see handoff
	body       func(t *Task)

	// stats (scheduler-only)
	pausedInCall   bool
	othersDoneSnap int64
}

type taskState uint8

const (
	stRunnable taskState = iota
	stBlocked
	stCondWait
	stDone
	stSleeping
	stChanWait
)

// Yield is the ordinary yield site inserted by the instrumenter.
//
//go:norace
func Yield(site uint32) {
	if CovOn {
		e := (covPrev*37 + site) & (CovSize - 1)
		covPrev = site
		if CovMap[e] == 0 {
			CovMap[e] = 1
			if covN < len(covList) {
				covList[covN] = e
				covN++
			}
		}
	}
	t := cur
	if t == nil {
		initHits[site&(MaxSites-1)]++
		return
	}
	steps++
	t.steps++
	siteHits[site&(MaxSites-1)]++
	t.budget--
	if t.budget > 0 {
		return
	}
	rep := handoff(t, request{t: t, kind: ReqYield})
	t.budget = rep.budget
}

// handoff parks the calling task and wakes the scheduler. The hand-off itself
// is hidden from the race detector (sync events ignored), so tasks of one run
// stay unordered for it although they execute serially.
//
//go:norace
func handoff(t *Task, r request) reply {
	// a release the scheduler can acquire when it parks this task across runs
	// (it orders nothing between tasks: only the scheduler ever acquires it)
	RaceReleaseMerge(unsafe.Pointer(&t.syncCell))
	raceDisable()
	toSched <- r
	rep := <-t.resume
	raceEnable()
	return rep
}

// SyncPoint is called by the sync/atomic/time stubs immediately before the
// real operation. It always gives the scheduler the chance to switch.
//
//go:norace
func SyncPoint(op int, addr uintptr) {
	t := cur
	if t == nil {
		return
	}
	steps++
	t.steps++
	syncCount[op]++
	rep := handoff(t, request{t: t, kind: ReqSync, addr: addr, n: int64(op)})
	t.budget = rep.budget
}

// Block is called by a stub whose operation cannot complete now (lock held by
// another task, channel not ready). It returns when the scheduler thinks a
// retry may succeed. Outside a simulation it just yields the processor.
//
//go:norace
func Block(addr uintptr) {
	t := cur
	if t == nil {
		runtime.Gosched()
		return
	}
	steps++
	t.steps++
	rep := handoff(t, request{t: t, kind: ReqBlock, addr: addr})
	t.budget = rep.budget
}

// Progress is called after every operation that may unblock another task.
//
//go:norace
func Progress() { progress++ }

// InSim reports whether the caller runs under the scheduler.
//
//go:norace
func InSim() bool { return cur != nil }

// CurID returns the id of the running task, or -1.
//
//go:norace
func CurID() int {
	if cur == nil {
		return -1
	}
	return cur.ID
}

// Ask performs a request/reply exchange with the scheduler (pool, clock, rand,
// spawn, cond). ok=false outside a simulation.
//
//go:norace
func Ask(kind ReqKind, op int, addr uintptr, n int64, val any) (rn int64, rval any, ok bool) {
	t := cur
	if t == nil {
		return 0, nil, false
	}
	steps++
	t.steps++
	syncCount[op]++
	rep := handoff(t, request{t: t, kind: kind, addr: addr, n: n, val: val})
	t.budget = rep.budget
	return rep.n, rep.val, true
}

//go:norace
func callBegin(t *Task) { t.callsBegun++; t.inCall = true }

//go:norace
func callEnd(t *Task) { t.callsDone++; t.inCall = false; callsDoneAll++ }

//go:norace
func readCallsDone() int64 { return callsDoneAll }

//go:norace
func readSteps() int64 { return steps }

//go:norace
func readProgress() int64 { return progress }

//go:norace
func setCur(t *Task) { cur = t }

//go:norace
func taskBudget(t *Task) int64 { return t.budget }

//go:norace
func taskCounters(t *Task) (st int64, begun, done int32, in bool) {
	return t.steps, t.callsBegun, t.callsDone, t.inCall
}

// SiteHits copies the per-site hit counters (call only between runs).
//
//go:norace
func SiteHits(n int) []uint32 {
	if n > MaxSites {
		n = MaxSites
	}
	out := make([]uint32, n)
	for i := 0; i < n; i++ {
		out[i] = siteHits[i]
	}
	return out
}

// SyncCounts returns how often each stub operation kind was entered.
//
//go:norace
func SyncCounts() [NumOps]int64 { return syncCount }

// Gosched replaces runtime.Gosched in the instrumented copy.
func Gosched() { SyncPoint(OpGosched, 0) }

// ---- edge coverage (corpus growth stage; single goroutine, no scheduler) ----

const CovSize = 1 << 16

var (
	CovOn    bool
	CovMap   [CovSize]uint8
	covPrev  uint32
	covList  [8192]uint32
	covN     int
	initHits [MaxSites]uint32
)

// CovReset clears the edges recorded since the last reset.
//
//go:norace
func CovReset() {
	if covN >= len(covList) {
		for i := range CovMap {
			CovMap[i] = 0
		}
	} else {
		for i := 0; i < covN; i++ {
			CovMap[covList[i]] = 0
		}
	}
	covN = 0
	covPrev = 0
}

// CovEdges calls f for every edge recorded since the last reset.
//
//go:norace
func CovEdges(f func(e uint32)) {
	if covN >= len(covList) {
		for i := range CovMap {
			if CovMap[i] != 0 {
				f(uint32(i))
			}
		}
		return
	}
	for i := 0; i < covN; i++ {
		f(covList[i])
	}
}

// InitHits copies the per-site counters of yields executed outside any run
// (package initialisation).
//
//go:norace
func InitHits(n int) []uint32 {
	if n > MaxSites {
		n = MaxSites
	}
	out := make([]uint32, n)
	for i := 0; i < n; i++ {
		out[i] = initHits[i]
	}
	return out
}

// MapKeys is the map-iteration seam: the keys of m, sorted and then permuted
// by a draw from the run's PRNG (sorted order outside a run).
func MapKeys[M ~map[K]V, K cmp.Ordered, V any](m M) []K {
	keys := make([]K, 0, len(m))
	for k := range m {
		keys = append(keys, k)
	}
	slices.Sort(keys)
	if len(keys) > 1 {
		if n, _, ok := Ask(ReqRand, OpRand, 0, 0, nil); ok {
			r := RNG{s: uint64(n)}
			for i := len(keys) - 1; i > 0; i-- {
				j := r.Intn(i + 1)
				keys[i], keys[j] = keys[j], keys[i]
			}
		}
	}
	return keys
}

// TimerSpec describes a simulated timer (time.NewTimer/After/AfterFunc/NewTicker).
type TimerSpec struct {
	Delay  int64   // ns until the first firing
	Period int64   // > 0: ticker
	Ch     uintptr // channel identity to send the time on (0 for AfterFunc)
	ChCap  int
	Fn     func() // AfterFunc body
	ID     int64  // assigned by the scheduler
	When   int64  // absolute simulated ns of the next firing
	Active bool
}

// NewTimerOutsideRun registers a timer created while no run is in progress
// (package initialisation); the next run adopts it.
//
//go:norace
func NewTimerOutsideRun(ts *TimerSpec) {
	if pendingTN < len(pendingTimers) {
		pendingTimers[pendingTN] = ts
		pendingTN++
	}
}

// Unmanaged reports whether this process has no scheduler at all.
func Unmanaged() bool { return unmanaged }

// SimProcs is what runtime.GOMAXPROCS(0) / runtime.NumCPU() report to the
// library under simulation: a per-process configuration knob chosen by the
// driver (VERIF_SIM_PROCS), independent of the real parallelism of the worker.
var SimProcs = func() int {
	if v, err := strconv.Atoi(os.Getenv("VERIF_SIM_PROCS")); err == nil && v > 0 {
		return v
	}
	return 8
}()

// GOMAXPROCS replaces runtime.GOMAXPROCS in the instrumented copy (setting it is ignored).
func GOMAXPROCS(n int) int { return SimProcs }

// NumCPU replaces runtime.NumCPU.
func NumCPU() int { return SimProcs }

// SimEpoch is the simulated wall-clock time (ns since 1970) at step 0 of this
// process: a per-process configuration value chosen by the driver
// (VERIF_SIM_EPOCH), so that different worker processes live at different
// hours, weekdays and months.
var SimEpoch = func() int64 {
	if v, err := strconv.ParseInt(os.Getenv("VERIF_SIM_EPOCH"), 10, 64); err == nil && v > 0 {
		return v
	}
	return 1700000000e9
}()

// ---- process metrics seam (runtime.ReadMemStats, NumGoroutine, GC, debug.SetGCPercent) ----
//
// What the host process looks like from inside - heap size, number of
// goroutines, collector cycles - is not a function of the input. A run lives at
// one of four pressure levels (a seeded per-run decision, recorded in the
// trace); level 0 is a small quiet process, the others a host with a large heap,
// many goroutines and many collector cycles behind it.

var memHeap = [4]uint64{6 << 20, 600 << 20, 5 << 30, 70 << 30}
var memExtraG = [4]int{0, 500, 20000, 1000000}

func memInfo() (level int, gcs uint32, live int) {
	n, _, ok := Ask(ReqMemInfo, OpClock, 0, 0, nil)
	if !ok {
		return 0, 0, 1
	}
	return int(n >> 48), uint32(n>>32) & 0xffff, int(n & 0xffffffff)
}

// NumGoroutine replaces runtime.NumGoroutine.
func NumGoroutine() int {
	if unmanaged {
		return runtime.NumGoroutine()
	}
	level, _, live := memInfo()
	return 1 + live + memExtraG[level]
}

// ReadMemStats replaces runtime.ReadMemStats.
func ReadMemStats(m *runtime.MemStats) {
	if unmanaged {
		runtime.ReadMemStats(m)
		return
	}
	level, gcs, _ := memInfo()
	st := uint64(readSteps())
	*m = runtime.MemStats{}
	m.HeapAlloc = memHeap[level]
	m.Alloc = m.HeapAlloc
	m.HeapInuse = m.HeapAlloc + m.HeapAlloc/8
	m.HeapIdle = m.HeapAlloc / 4
	m.HeapSys = m.HeapInuse + m.HeapIdle
	m.HeapReleased = m.HeapIdle / 2
	m.HeapObjects = m.HeapAlloc / 96
	m.StackInuse = 1 << 20
	m.StackSys = 1 << 20
	m.Sys = m.HeapSys + 16<<20
	m.TotalAlloc = m.HeapAlloc + st*48
	m.Mallocs = m.HeapObjects + st/2
	m.Frees = st / 2
	m.NumGC = gcs + uint32(level)*4000
	m.NumForcedGC = gcs
	m.NextGC = 2 * m.HeapAlloc
	m.PauseTotalNs = uint64(m.NumGC) * 120000
	m.LastGC = uint64(SimEpoch)
	m.GCCPUFraction = 0.004 * float64(1+level*4)
	m.GCSys = m.HeapSys / 32
	m.EnableGC = true
}

// GC replaces runtime.GC and debug.FreeOSMemory: the collection happens, as a
// step of the simulation (finalizers it makes due become tasks).
func GC() {
	if unmanaged {
		runtime.GC()
		return
	}
	if _, _, ok := Ask(ReqGC, OpClock, 0, 0, nil); !ok {
		runtime.GC()
	}
}

var simGCPercent, simMemLimit int64 = 100, 1<<63 - 1

// DebugSetGCPercent replaces debug.SetGCPercent: the collector stays under the
// scheduler's control; the value is remembered and returned like the real one.
//
//go:norace
func DebugSetGCPercent(p int) int { o := simGCPercent; simGCPercent = int64(p); return int(o) }

// DebugSetMemoryLimit replaces debug.SetMemoryLimit.
//
//go:norace
func DebugSetMemoryLimit(l int64) int64 {
	o := simMemLimit
	if l >= 0 {
		simMemLimit = l
	}
	return o
}

// DebugFreeOSMemory replaces debug.FreeOSMemory.
func DebugFreeOSMemory() { GC() }

// ---- finalizer seam ----
//
// runtime.SetFinalizer(obj, f) in the library is redirected here. The real
// finalizer only moves (obj, f) into a queue; f itself runs later as a task
// under the scheduler (which drains the queue after every forced collection),
// never on the runtime's own finalizer goroutine.

type finRec struct {
	obj any
	fn  any
}

var (
	finMu    sync.Mutex
	finQueue []finRec
)

var finSeen atomic.Bool
var finCell uint64

// FinalizersSeen reports whether the library ever registered a finalizer.
func FinalizersSeen() bool { return finSeen.Load() }

// SetFinalizer replaces runtime.SetFinalizer.
func SetFinalizer(obj any, finalizer any) {
	finSeen.Store(true)
	if unmanaged || finalizer == nil {
		runtime.SetFinalizer(obj, finalizer)
		return
	}
	fn := finalizer
	// "a call to SetFinalizer(x, f) happens before the finalization call f(x)"
	RaceReleaseMerge(unsafe.Pointer(&finCell))
	wrapper := reflect.MakeFunc(reflect.FuncOf([]reflect.Type{reflect.TypeOf(obj)}, nil, false), func(args []reflect.Value) []reflect.Value {
		finMu.Lock()
		finQueue = append(finQueue, finRec{obj: args[0].Interface(), fn: fn})
		finMu.Unlock()
		return nil
	})
	runtime.SetFinalizer(obj, wrapper.Interface())
}

// takeFinalizers returns the finalizer calls that became due.
func takeFinalizers() []func() {
	finMu.Lock()
	q := finQueue
	finQueue = nil
	finMu.Unlock()
	var out []func()
	for _, r := range q {
		r := r
		out = append(out, func() {
			RaceAcquire(unsafe.Pointer(&finCell))
			reflect.ValueOf(r.fn).Call([]reflect.Value{reflect.ValueOf(r.obj)})
		})
	}
	return out
}

type finSentinel struct{ _ [16]byte }

// waitFinalizers lets the runtime's finalizer goroutine process everything
// the last collection queued (a sentinel's finalizer marks the end of the batch).
func waitFinalizers() {
	done := make(chan struct{})
	s := new(finSentinel)
	runtime.SetFinalizer(s, func(*finSentinel) { close(done) })
	s = nil
	runtime.GC()
	select {
	case <-done:
	case <-time.After(200 * time.Millisecond):
	}
}

// StepNS: simulated nanoseconds per step (per-process configuration knob,
// VERIF_SIM_STEPNS): the same code runs on fast and on slow machines, so
// how much time a call appears to take must not be fixed by the simulator.
var StepNS = func() int64 {
	if v, err := strconv.ParseInt(os.Getenv("VERIF_SIM_STEPNS"), 10, 64); err == nil && v > 0 {
		return v
	}
	return 1000
}()
