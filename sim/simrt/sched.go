package simrt

import (
	"fmt"
	"math"
	"os"
	"unsafe"
)

// unmanaged: the process has no scheduler (set by the driver for the
// non-race coverage build); stubs then behave like the real primitives.
var unmanaged = os.Getenv("VERIF_UNMANAGED") != ""

// ---------------------------------------------------------------- PRNG

// RNG is splitmix64: the only source of randomness in a run.
type RNG struct{ s uint64 }

func NewRNG(seed uint64) *RNG { return &RNG{s: seed} }

func (r *RNG) U64() uint64 {
	r.s += 0x9e3779b97f4a7c15
	z := r.s
	z = (z ^ (z >> 30)) * 0xbf58476d1ce4e5b9
	z = (z ^ (z >> 27)) * 0x94d049bb133111eb
	return z ^ (z >> 31)
}

// Intn returns a value in [0,n); n<=0 gives 0.
func (r *RNG) Intn(n int) int {
	if n <= 0 {
		return 0
	}
	return int(r.U64() % uint64(n))
}

func (r *RNG) Float() float64 { return float64(r.U64()>>11) / float64(1<<53) }

// Mix derives a new seed from a seed and two indices.
func Mix(seed uint64, a, b uint64) uint64 {
	r := RNG{s: seed ^ (a+1)*0xd6e8feb86659fd93 ^ (b+1)*0xca5a826395121157}
	r.U64()
	return r.U64()
}

// ---------------------------------------------------------------- specs

const (
	APISQLi = 0
	APIXSS  = 1
)

// Call is one library call issued by a task.
type Call struct {
	API   uint8  `json:"api"`
	Idx   int32  `json:"idx"` // corpus index, -1 if none
	Input string `json:"-"`
}

// Policy describes how scheduling, pool, clock decisions are drawn from the PRNG.
type Policy struct {
	Kind       string  `json:"kind"` // seq | pct | walk | rr | sync | explicit
	Depth      int     `json:"depth,omitempty"`
	P          float64 `json:"p,omitempty"`
	Quantum    int64   `json:"quantum,omitempty"`
	PoolMode   string  `json:"pool,omitempty"` // lifo | fifo | random
	PoolEvict  float64 `json:"pool_evict,omitempty"`
	PoolCross  float64 `json:"pool_cross,omitempty"`
	ClockJumpP float64 `json:"clock_jump_p,omitempty"`
	TimerP     float64 `json:"timer_p,omitempty"`  // per hand-off probability that a sleeping library goroutine's timer fires now
	GCP        float64 `json:"gc_p,omitempty"`     // per hand-off probability of a forced garbage collection (the collector is otherwise off)
	GCEvery    int64   `json:"gc_every,omitempty"` // force a collection every so many steps of the run (no cap on their number)
}

// Trace is the explicit decision record of one run: enough to replay it
// without any PRNG.
type Trace struct {
	Segs  [][2]int64 `json:"segs"`          // (task id, steps): run task for that many steps
	Pool  []int32    `json:"pool"`          // per Pool.Get: index into the pool's item list, -1 = miss
	Clock []int64    `json:"clock"`         // per clock read: forward jump in ns
	Rand  []uint64   `json:"rand"`          // per rand draw
	Mem   int        `json:"mem,omitempty"` // process pressure level of this run (0..3), see ReadMemStats
}

// RunSpec is one simulated run.
type RunSpec struct {
	Seed   uint64
	Tasks  [][]Call
	Policy Policy
	Trace  *Trace // used when Policy.Kind == "explicit"
	// ShareInputs: calls of this run that ask the same input are handed the very
	// same string value (one backing array, allocated at run start), as a server
	// does with a constant or an interned header value. Otherwise every call gets
	// its own fresh copy.
	ShareInputs bool
	Est         int64 // estimated fault-free steps of all calls together
}

// Faults counts fault kinds that actually fired.
type Faults struct {
	Preempt     int64 `json:"preempt"`
	Stall       int64 `json:"stall"`
	PoolEvict   int64 `json:"pool_evict"`
	PoolCross   int64 `json:"pool_cross"`
	PoolReuse   int64 `json:"pool_reuse"`
	LockContend int64 `json:"lock_contend"`
	ClockJump   int64 `json:"clock_jump"`
	CallerPanic int64 `json:"caller_panic"`
	ColdStart   int64 `json:"cold_start"`
	TimerFire   int64 `json:"timer_fire"`
	GC          int64 `json:"gc"`
	Finalizer   int64 `json:"finalizer_run"`
	MemPressure int64 `json:"mem_pressure"` // process metrics read by the library while the run's pressure level was > 0
}

func (f *Faults) Add(o *Faults) {
	f.Preempt += o.Preempt
	f.Stall += o.Stall
	f.PoolEvict += o.PoolEvict
	f.PoolCross += o.PoolCross
	f.PoolReuse += o.PoolReuse
	f.LockContend += o.LockContend
	f.ClockJump += o.ClockJump
	f.CallerPanic += o.CallerPanic
	f.ColdStart += o.ColdStart
	f.TimerFire += o.TimerFire
	f.GC += o.GC
	f.Finalizer += o.Finalizer
	f.MemPressure += o.MemPressure
}

// RunResult is what one run produced.
type RunResult struct {
	Results    [][]string
	CallSteps  [][]int64 // steps each call took (task-local step counter)
	Steps      int64
	Switches   int64
	Overlap    bool // two calls of different tasks were in flight at once
	Parked     bool // policy "overlap": task 1 reached its Depth-th request before it finished
	Trace      Trace
	SchedHash  uint64
	Faults     Faults
	Deadlock   bool
	NoReturn   bool
	Starved    bool // explicit schedule only: the bound was hit while a runnable caller got no turns
	Detail     string
	RaceDelta  int
	Spawned    int
	Leaked     int
	Background int // library goroutines adopted from earlier runs / package init
	Mutated    []MutatedValue
}

// MutatedValue: a string returned by a call read differently at the end of the run.
type MutatedValue struct {
	Task, Call      int
	AtReturn, Later string
}

// ---------------------------------------------------------------- simulator

type poolItem struct {
	val any
	by  int
}

// Sim is the scheduler. One per process; library-global state it models
// (pool contents, clock) persists across runs like the library's own globals.
type Sim struct {
	// Exec performs one library call and returns the encoded result plus the raw
	// string the library returned (the SQLi fingerprint), NOT copied: the
	// simulator re-reads it at the end of the run to see whether a value already
	// handed to a caller changed afterwards (aliasing of reused buffers).
	Exec func(api uint8, input string) (res string, raw string)

	pools   map[uintptr][]poolItem
	conds   map[uintptr][]*condEntry
	clock   int64   // accumulated jumps + sleeps, ns
	bg      []*Task // library goroutines that outlived the run they were started in
	chans   map[uintptr]*chanState
	timers  []*TimerSpec
	timerID int64

	// per run
	spec      *RunSpec
	memLevel  int  // process pressure level of the current run
	MemFaults bool // seeded pressure levels (off in the equivalence pass: level 0 is what the shipped code sees there)
	rng       *RNG
	tasks     []*Task
	live      []*Task // unfinished tasks, ordered by id
	raws      [][]string
	res       *RunResult
	base      int64 // global steps at run start
	fair      bool
	explicit  bool
	segIdx    int
	segLeft   int64
	poolIdx   int
	clockIdx  int
	randIdx   int
	rrNext    int
	cps       []int64 // pct change points (run-relative steps)
	cpIdx     int
	seqOrder  []int
	last      *Task
}

func NewSim(exec func(api uint8, input string) (string, string)) *Sim {
	toSched = make(chan request)
	return &Sim{Exec: exec, pools: map[uintptr][]poolItem{}, conds: map[uintptr][]*condEntry{}, chans: map[uintptr]*chanState{}}
}

const inf = int64(math.MaxInt64 / 4)

var runStartCell uint64

func cloneString(s string) string {
	b := make([]byte, len(s))
	copy(b, s)
	return unsafe.String(unsafe.SliceData(b), len(b))
}

func (s *Sim) runSteps() int64 { return readSteps() - s.base }

func (s *Sim) newTask(body func(t *Task)) *Task {
	t := &Task{ID: len(s.tasks), resume: make(chan reply), body: body, parent: -1}
	s.tasks = append(s.tasks, t)
	s.live = append(s.live, t)
	return t
}

//go:norace
func taskMain(t *Task) {
	// first resume: hidden from the race detector like every other hand-off
	raceDisable()
	rep := <-t.resume
	raceEnable()
	// whatever the scheduler goroutine did before this run started (including
	// the harness's own reads of library globals) happens-before this task: for
	// tasks spawned by the scheduler the go statement already says so, for
	// goroutines the library started in package init this acquire does
	RaceAcquire(unsafe.Pointer(&runStartCell))
	setBudget(t, rep.budget)
	t.body(t)
	// final hand-off with sync ENABLED: the scheduler acquires everything this
	// task did, so later runs are ordered after it.
	toSched <- request{t: t, kind: ReqDone}
}

//go:norace
func setBudget(t *Task, b int64) { t.budget = b }

//go:norace
func getPendingN() int { return pendingN }

//go:norace
func takePending(i int) *Task { return pendingBG[i] }

//go:norace
func clearPending() { pendingN = 0 }

//go:norace
func getPendingTN() int { return pendingTN }

//go:norace
func takePendingTimer(i int) *TimerSpec { return pendingTimers[i] }

//go:norace
func clearPendingT() { pendingTN = 0 }

//go:norace
func taskSteps(t *Task) int64 { return t.steps }

// Run executes one run to completion (or deadlock / step bound).
func (s *Sim) Run(spec *RunSpec) *RunResult {
	s.spec = spec
	s.rng = NewRNG(spec.Seed ^ 0x5eed5eed5eed5eed)
	s.tasks = s.tasks[:0]
	s.live = s.live[:0]
	s.raws = s.raws[:0]
	s.res = &RunResult{Results: make([][]string, len(spec.Tasks)), CallSteps: make([][]int64, len(spec.Tasks))}
	s.base = readSteps()
	s.fair = false
	s.explicit = spec.Policy.Kind == "explicit"
	s.segIdx, s.segLeft, s.poolIdx, s.clockIdx, s.randIdx = 0, 0, 0, 0, 0
	s.rrNext = 0
	s.last = nil
	s.cps, s.cpIdx = nil, 0
	races0 := RaceErrors()
	s.memLevel = 0
	if s.explicit {
		if spec.Trace != nil {
			s.memLevel = spec.Trace.Mem & 3
		}
	} else if s.MemFaults {
		// three runs in ten see a host under memory / goroutine pressure
		if r := Mix(spec.Seed, 0x3e3, 7) % 10; r >= 7 {
			s.memLevel = int(r - 6)
		}
	}
	s.res.Trace.Mem = s.memLevel

	var shared map[string]string
	if spec.ShareInputs {
		shared = map[string]string{}
	}
	for i := range spec.Tasks {
		calls := spec.Tasks[i]
		var ins []string // built here, on the scheduler goroutine, before any task exists
		if shared != nil {
			ins = make([]string, len(calls))
			for j, c := range calls {
				v, ok := shared[c.Input]
				if !ok {
					v = cloneString(c.Input)
					shared[c.Input] = v
				}
				ins[j] = v
			}
		}
		out := make([]string, len(calls))
		cs := make([]int64, len(calls))
		raws := make([]string, len(calls))
		s.raws = append(s.raws, raws)
		s.res.Results[i] = out
		s.res.CallSteps[i] = cs
		exec := s.Exec
		s.newTask(func(t *Task) {
			for j := range calls {
				Yield(0)
				callBegin(t)
				// steps of ALL tasks while this call was in flight: in the single-caller
				// sequential pass that is the caller's own work plus the work of the
				// goroutines the library started for it (the fault-free cost of the call)
				s0 := readSteps()
				// every call gets its own freshly allocated copy of the input, like a
				// request handler does: the copy becomes garbage when the call returns
				if ins != nil {
					out[j], raws[j] = exec(calls[j].API, ins[j])
				} else {
					out[j], raws[j] = exec(calls[j].API, cloneString(calls[j].Input))
				}
				cs[j] = readSteps() - s0
				callEnd(t)
			}
		})
	}
	RaceReleaseMerge(unsafe.Pointer(&runStartCell))
	ncallers := len(s.tasks)
	// adopt background goroutines of the library (their goroutines already exist, parked)
	adopt := func(t *Task) {
		t.ID = len(s.tasks)
		t.pausedInCall = false
		s.tasks = append(s.tasks, t)
		s.live = append(s.live, t)
	}
	for _, t := range s.bg {
		adopt(t)
	}
	s.bg = s.bg[:0]
	for i := 0; i < getPendingN(); i++ {
		adopt(takePending(i))
	}
	clearPending()
	for i := 0; i < getPendingTN(); i++ {
		ts := takePendingTimer(i)
		s.addTimer(ts, ts.Delay)
	}
	clearPendingT()
	s.res.Background = len(s.tasks) - ncallers
	s.initPolicy()
	// a caller's goroutine is created when the scheduler first runs it, not at
	// run start: request goroutines come into being while other requests are
	// in flight (goroutine ids, stacks freed by a growing stack and handed to the
	// next new goroutine)
	for _, t := range s.tasks[:ncallers] {
		t.unborn = true
	}

	bound := 1000*spec.Est + 1000000
	fairAt := 2*spec.Est + 2000
	starveGC := 0
	graceEnd := int64(-1) // step at which library goroutines stop being scheduled after the last caller returned
	for {
		if s.runSteps() > bound {
			if s.unfinishedCallers() == 0 {
				break
			}
			if s.explicit && s.starvedCaller(bound) {
				// an explicit schedule (a minimisation candidate, an edited replay) that
				// never lets a runnable caller run says nothing about the library
				s.res.Starved = true
				s.res.Detail = s.describe("explicit schedule starves a runnable caller")
				break
			}
			s.res.NoReturn = true
			s.res.Detail = s.describe("step bound exceeded")
			break
		}
		if s.unfinishedCallers() == 0 {
			// all callers returned: library goroutines get a bounded grace period,
			// then they are parked and carried over to the next run of this process
			if graceEnd < 0 {
				g := spec.Est/2 + 300
				if g > 20000 {
					g = 20000
				}
				graceEnd = s.runSteps() + g
			}
			if s.runSteps() >= graceEnd {
				break
			}
		}
		if !s.fair && !s.explicit && s.runSteps() > fairAt {
			s.fair = true
		}
		s.maybeFireTimer()
		s.maybeGC()
		s.fireDueTimers()
		t, budget := s.pick()
		if t == nil {
			if s.unfinishedCallers() == 0 {
				break
			}
			if s.advanceToNextWake() {
				continue
			}
			if FinalizersSeen() && starveGC < 3 {
				// callers may be waiting for resources that only a finalizer returns:
				// a real process would collect sooner or later
				starveGC++
				s.forceGC()
				continue
			}
			s.res.Deadlock = true
			s.res.Detail = s.describe("no runnable task")
			break
		}
		if graceEnd >= 0 && budget > graceEnd-s.runSteps() {
			budget = graceEnd - s.runSteps()
		}
		s.resumeTask(t, budget)
	}
	// whatever the library left running is background state of the process
	for _, t := range s.live {
		if t.ID >= len(spec.Tasks) {
			s.bg = append(s.bg, t)
		}
	}
	s.res.Leaked = len(s.bg)
	for _, t := range s.bg {
		// everything a carried-over library goroutine did so far happens-before
		// whatever this process does next (globals probe, later runs)
		RaceAcquire(unsafe.Pointer(&t.syncCell))
	}
	setCur(nil)
	s.res.Steps = s.runSteps()
	s.res.RaceDelta = RaceErrors() - races0
	s.res.SchedHash = hashSegs(s.res.Trace.Segs)
	s.res.Spawned = len(s.tasks) - len(spec.Tasks)
	for _, r := range s.res.Results {
		for _, v := range r {
			if len(v) > 0 && v[0] == 'P' {
				s.res.Faults.CallerPanic++
			}
		}
	}
	// values already returned to callers must not change afterwards
	if !s.res.Deadlock && !s.res.NoReturn && !s.res.Starved {
		for i, rs := range s.raws {
			for j, raw := range rs {
				out := s.res.Results[i][j]
				if len(out) >= 2 && out[0] == 'T' && out[1] == ':' && out[2:] != raw {
					s.res.Mutated = append(s.res.Mutated, MutatedValue{Task: i, Call: j, AtReturn: out[2:], Later: string(append([]byte(nil), raw...))})
				}
			}
		}
	}
	return s.res
}

func hashSegs(segs [][2]int64) uint64 {
	h := uint64(1469598103934665603)
	for _, sg := range segs {
		h = (h ^ uint64(sg[0])) * 1099511628211
		h = (h ^ uint64(sg[1])) * 1099511628211
	}
	return h
}

func (s *Sim) unfinishedCallers() int {
	n := 0
	for _, t := range s.live {
		if t.ID < len(s.spec.Tasks) {
			n++
		}
	}
	return n
}

func (s *Sim) unfinished() int { return len(s.live) }

// starvedCaller: an unfinished caller is runnable and has itself taken less
// than a quarter of the step bound.
func (s *Sim) starvedCaller(bound int64) bool {
	for _, t := range s.live {
		if t.ID < len(s.spec.Tasks) && s.runnable(t) && t.steps < bound/4 {
			return true
		}
	}
	return false
}

func (s *Sim) describe(what string) string {
	d := what + ":"
	for _, t := range s.live {
		st, begun, done, in := taskCounters(t)
		state := [...]string{"runnable", "blocked", "condwait", "done", "sleeping", "chanwait"}[t.state]
		d += fmt.Sprintf(" task%d{%s steps=%d calls=%d/%d inCall=%v blockedOn=%#x}", t.ID, state, st, done, begun, in, t.blockAddr)
	}
	return d
}

func (s *Sim) runnable(t *Task) bool {
	switch t.state {
	case stRunnable:
		return true
	case stBlocked:
		return readProgress() != t.blockEpoch
	case stSleeping:
		return s.Now() >= t.wakeAt
	}
	return false
}

func (s *Sim) runnables() []*Task {
	var out []*Task
	for _, t := range s.live {
		if s.runnable(t) {
			out = append(out, t)
		}
	}
	return out
}

// resumeTask lets t run until its next hand-off and handles that request.
func (s *Sim) resumeTask(t *Task, budget int64) {
	if budget < 1 {
		budget = 1
	}
	// statistics at a switch
	if s.last != t {
		if s.last != nil {
			s.res.Switches++
			_, _, _, in := taskCounters(s.last)
			if in && s.last.state != stDone {
				if s.last.state == stRunnable {
					s.res.Faults.Preempt++
				}
				s.res.Overlap = true
				s.last.pausedInCall = true
				s.last.othersDoneSnap = s.callsDoneTotal()
			}
		}
		if t.pausedInCall {
			if s.callsDoneTotal() > t.othersDoneSnap {
				s.res.Faults.Stall++
			}
			t.pausedInCall = false
		}
	}
	s.last = t
	if t.state == stBlocked || t.state == stSleeping {
		t.state = stRunnable
	}
	start := readSteps()
	rep := t.pend
	t.pend = reply{}
	rep.budget = budget
	if t.unborn {
		t.unborn = false
		go taskMain(t)
	}
	setCur(t)
	t.resume <- rep
	req := <-toSched
	setCur(nil)
	ran := readSteps() - start
	s.recordSeg(t.ID, ran)
	if s.explicit && s.segLeft > 0 {
		s.segLeft -= ran
	}
	s.handle(req)
}

func (s *Sim) callsDoneTotal() int64 { return readCallsDone() }

func (s *Sim) recordSeg(id int, ran int64) {
	if ran < 1 {
		// a task that was resumed only to finish (no yield on the way): it still
		// occupied a scheduling slot, which a replay must give it again
		ran = 1
	}
	segs := s.res.Trace.Segs
	if n := len(segs); n > 0 && segs[n-1][0] == int64(id) {
		segs[n-1][1] += ran
		return
	}
	s.res.Trace.Segs = append(segs, [2]int64{int64(id), ran})
}

func (s *Sim) handle(req request) {
	t := req.t
	if req.kind != ReqYield && req.kind != ReqDone {
		t.reqs++
	}
	switch req.kind {
	case ReqYield, ReqSync:
		// still runnable
	case ReqBlock:
		t.state = stBlocked
		t.blockEpoch = readProgress()
		t.blockAddr = req.addr
		s.res.Faults.LockContend++
	case ReqDone:
		t.state = stDone
		for i, x := range s.live {
			if x == t {
				s.live = append(s.live[:i], s.live[i+1:]...)
				break
			}
		}
	case ReqPoolPut:
		s.pools[req.addr] = append(s.pools[req.addr], poolItem{val: req.val, by: t.ID})
	case ReqPoolGet:
		t.pend.val = s.poolGet(req.addr, t.ID)
	case ReqClock:
		t.pend.n = s.clockRead()
	case ReqGC:
		s.libGC()
	case ReqMemInfo:
		if s.memLevel > 0 {
			s.res.Faults.MemPressure++
		}
		t.pend.n = int64(s.memLevel)<<48 | int64(procGCs&0xffff)<<32 | int64(len(s.live))
	case ReqSleep:
		if req.n > 0 {
			t.state = stSleeping
			t.wakeAt = s.Now() + req.n
		}
	case ReqRand:
		t.pend.n = int64(s.randDraw() >> 1)
	case ReqSpawn:
		nt := req.val.(*Task)
		nt.ID = len(s.tasks)
		nt.parent = t.ID
		nt.prio = s.rng.Intn(1 << 20)
		s.tasks = append(s.tasks, nt)
		s.live = append(s.live, nt)
	case ReqSelect:
		s.chanSelect(t, req.val.([]selCase), req.n == 1)
	case ReqChanClose:
		t.pend.n = s.chanClose(req.addr)
	case ReqChanLen:
		if cs := s.chans[req.addr]; cs != nil {
			t.pend.n = int64(len(cs.buf))
		}
	case ReqChanBlockForever:
		t.state = stChanWait
	case ReqChanMake:
		delete(s.chans, req.addr)
	case ReqChanAdopt:
		cs := s.chanOf(req.addr, int(req.n))
		cs.buf = append(cs.buf, req.val.([]any)...)
	case ReqTimerNew:
		ts := req.val.(*TimerSpec)
		s.addTimer(ts, req.n)
		t.pend.n = ts.ID
	case ReqTimerStop:
		for _, ts := range s.timers {
			if ts.ID == req.n {
				if ts.Active {
					t.pend.n = 1
				}
				ts.Active = false
			}
		}
	case ReqTimerReset:
		for _, ts := range s.timers {
			if ts.ID == req.n {
				if ts.Active {
					t.pend.n = 1
				}
				ts.Active = true
				ts.When = s.Now() + int64(req.addr)
			}
		}
	case ReqCondAdd:
		// sync.Cond.Wait adds the caller to the notify list BEFORE it unlocks L:
		// a Signal issued between the unlock and the suspension is not lost
		s.conds[req.addr] = append(s.conds[req.addr], &condEntry{t: t})
	case ReqCondWait:
		es := s.conds[req.addr]
		for i, e := range es {
			if e.t != t {
				continue
			}
			if e.signalled {
				s.conds[req.addr] = append(es[:i:i], es[i+1:]...)
			} else {
				e.waiting = true
				t.state = stCondWait
				t.blockAddr = req.addr
			}
			break
		}
	case ReqCondSignal:
		es := s.conds[req.addr]
		var keep []*condEntry
		fired := false
		for _, e := range es {
			if e.signalled || (req.n != 1 && fired) {
				keep = append(keep, e)
				continue
			}
			// Signal wakes the longest waiter (notify-list order), Broadcast all
			fired = true
			e.signalled = true
			if e.waiting {
				e.t.state = stRunnable
			} else {
				keep = append(keep, e) // consumed by its ReqCondWait
			}
		}
		if len(keep) == 0 {
			delete(s.conds, req.addr)
		} else {
			s.conds[req.addr] = keep
		}
	}
}

type condEntry struct {
	t         *Task
	signalled bool
	waiting   bool
}

// Go replaces a go statement of the library: the child becomes a task of the
// run. The goroutine is started here, on the *parent* task goroutine, so the
// child inherits the parent's happens-before clock exactly like a real go
// statement; it then parks until the scheduler first picks it.
//
//go:norace
func Go(fn func()) {
	if cur == nil {
		if unmanaged {
			// no scheduler in this process (coverage-guided corpus growth): behave
			// exactly like the go statement
			go fn()
			return
		}
		// outside a run (package initialisation): the goroutine becomes a
		// background task that the next run adopts; it must not run unmanaged
		if pendingN >= len(pendingBG) {
			return
		}
		bt := &Task{parent: -1}
		bt.resume = make(chan reply)
		bt.body = func(*Task) { fn() }
		go taskMain(bt)
		pendingBG[pendingN] = bt
		pendingN++
		return
	}
	nt := &Task{parent: -1}
	nt.resume = make(chan reply)
	nt.body = func(*Task) { fn() }
	go taskMain(nt)
	Ask(ReqSpawn, OpSpawn, 0, 0, nt)
}

// ---------------------------------------------------------------- decisions

func (s *Sim) initPolicy() {
	p := &s.spec.Policy
	n := len(s.tasks)
	switch p.Kind {
	case "pct":
		perm := s.perm(n)
		for i, t := range s.tasks {
			t.prio = p.Depth + 1 + perm[i]
		}
		est := s.spec.Est
		if est < 2 {
			est = 2
		}
		for i := 0; i < p.Depth-1; i++ {
			s.cps = append(s.cps, 1+int64(s.rng.U64()%uint64(est)))
		}
		sortInt64(s.cps)
	case "seq":
		s.seqOrder = s.perm(n)
	}
}

func sortInt64(a []int64) {
	for i := 1; i < len(a); i++ {
		for j := i; j > 0 && a[j] < a[j-1]; j-- {
			a[j], a[j-1] = a[j-1], a[j]
		}
	}
}

func (s *Sim) perm(n int) []int {
	p := make([]int, n)
	for i := range p {
		p[i] = i
	}
	for i := n - 1; i > 0; i-- {
		j := s.rng.Intn(i + 1)
		p[i], p[j] = p[j], p[i]
	}
	return p
}

// pick chooses the next task and its step budget.
func (s *Sim) pick() (*Task, int64) {
	run := s.runnables()
	if s.explicit && len(run) == 0 {
		// a recorded clock advance / collection may be what makes a task runnable
		segs := s.spec.Trace.Segs
		if s.segLeft <= 0 && s.segIdx < len(segs) && segs[s.segIdx][0] < 0 {
			return s.pickExplicit(run)
		}
	}
	if len(run) == 0 {
		return nil, 0
	}
	if s.explicit {
		return s.pickExplicit(run)
	}
	if s.fair {
		return s.pickRR(run, 64)
	}
	p := &s.spec.Policy
	switch p.Kind {
	case "pct":
		now := s.runSteps()
		for s.cpIdx < len(s.cps) && now >= s.cps[s.cpIdx] {
			if s.last != nil {
				s.last.prio = p.Depth - 1 - s.cpIdx
			}
			s.cpIdx++
		}
		best := run[0]
		for _, t := range run[1:] {
			if t.prio > best.prio {
				best = t
			}
		}
		b := inf
		if s.cpIdx < len(s.cps) {
			b = s.cps[s.cpIdx] - now
		}
		return best, b
	case "walk":
		t := run[s.rng.Intn(len(run))]
		return t, s.geometric(p.P)
	case "rr":
		return s.pickRR(run, p.Quantum)
	case "overlap":
		// task 1 is parked right after its Depth-th synchronisation request, with
		// its call in flight; task 0 then runs its calls; then task 1 goes on
		if len(s.tasks) >= 2 {
			a, b := s.tasks[0], s.tasks[1]
			if b.reqs < int64(p.Depth) && s.runnable(b) {
				return b, inf
			}
			if b.reqs >= int64(p.Depth) && b.state != stDone {
				s.res.Parked = true
			}
			if s.runnable(a) {
				return a, inf
			}
			if a.state != stDone && s.last != nil && s.last != b && s.runnable(s.last) {
				return s.last, inf // a library goroutine task 0 waits for
			}
			for _, t := range run {
				if a.state != stDone && t != b {
					return t, inf
				}
			}
		}
		return run[0], inf
	case "sync":
		if s.last != nil && s.runnable(s.last) && s.rng.Float() >= p.P {
			return s.last, inf
		}
		return run[s.rng.Intn(len(run))], inf
	default: // seq
		if s.last != nil && s.runnable(s.last) {
			return s.last, inf
		}
		for _, id := range s.seqOrder {
			if id < len(s.tasks) && s.runnable(s.tasks[id]) {
				return s.tasks[id], inf
			}
		}
		return run[0], inf
	}
}

func (s *Sim) geometric(p float64) int64 {
	if p <= 0 {
		return inf
	}
	if p >= 1 {
		return 1
	}
	u := s.rng.Float()
	if u <= 0 {
		u = 1e-18
	}
	g := int64(math.Log(u)/math.Log(1-p)) + 1
	if g < 1 {
		g = 1
	}
	return g
}

func (s *Sim) pickRR(run []*Task, q int64) (*Task, int64) {
	if q < 1 {
		q = 1
	}
	// run is ordered by id: first runnable with id >= rrNext, else wrap around
	pick := run[0]
	for _, t := range run {
		if t.ID >= s.rrNext {
			pick = t
			break
		}
	}
	s.rrNext = pick.ID + 1
	return pick, q
}

func (s *Sim) pickExplicit(run []*Task) (*Task, int64) {
	segs := s.spec.Trace.Segs
	for {
		if s.segLeft > 0 && s.segIdx > 0 {
			id := int(segs[s.segIdx-1][0])
			if id >= 0 && id < len(s.tasks) && s.runnable(s.tasks[id]) {
				return s.tasks[id], s.segLeft
			}
			s.segLeft = 0
		}
		if s.segIdx >= len(segs) {
			break
		}
		if segs[s.segIdx][0] == -2 {
			// pseudo segment: forced garbage collection
			s.forceGC()
			s.segIdx++
			continue
		}
		if segs[s.segIdx][0] < 0 {
			// pseudo segment: the simulated clock advances (a timer fires / a sleeper wakes);
			// timers that are due fire at once, as they did in the recorded run
			s.advanceClock(segs[s.segIdx][1])
			s.segIdx++
			s.fireDueTimers()
			run = s.runnables()
			if len(run) == 0 {
				return nil, 0
			}
			continue
		}
		s.segLeft = segs[s.segIdx][1]
		s.segIdx++
	}
	// trace exhausted: fair round-robin, run to completion
	if len(run) == 0 {
		return nil, 0
	}
	return s.pickRR(run, 64)
}

func (s *Sim) poolGet(addr uintptr, me int) any {
	items := s.pools[addr]
	choice := -1
	if s.explicit {
		tr := s.spec.Trace
		if s.poolIdx < len(tr.Pool) {
			choice = int(tr.Pool[s.poolIdx])
		} else if len(items) > 0 {
			choice = len(items) - 1
		}
		s.poolIdx++
		if choice >= len(items) {
			if len(items) > 0 {
				choice %= len(items)
			} else {
				choice = -1
			}
		}
	} else if len(items) > 0 {
		p := &s.spec.Policy
		switch {
		case s.rng.Float() < p.PoolEvict:
			choice = -1
		default:
			// prefer an item last put by this task (per-P locality) unless "cross"
			cross := s.rng.Float() < p.PoolCross
			var cand []int
			for i, it := range items {
				if (it.by == me) != cross {
					cand = append(cand, i)
				}
			}
			if len(cand) == 0 {
				for i := range items {
					cand = append(cand, i)
				}
			}
			switch p.PoolMode {
			case "fifo":
				choice = cand[0]
			case "random":
				choice = cand[s.rng.Intn(len(cand))]
			default:
				choice = cand[len(cand)-1]
			}
		}
	}
	s.res.Trace.Pool = append(s.res.Trace.Pool, int32(choice))
	if choice < 0 {
		if len(items) > 0 {
			s.res.Faults.PoolEvict++
		}
		return nil
	}
	it := items[choice]
	s.pools[addr] = append(items[:choice:choice], items[choice+1:]...)
	s.res.Faults.PoolReuse++
	if it.by != me {
		s.res.Faults.PoolCross++
	}
	return it.val
}

func (s *Sim) clockRead() int64 {
	var jump int64
	if s.explicit {
		tr := s.spec.Trace
		if s.clockIdx < len(tr.Clock) {
			jump = tr.Clock[s.clockIdx]
		}
		s.clockIdx++
	} else if s.rng.Float() < s.spec.Policy.ClockJumpP {
		// forward jump: 1µs .. ~17s, log-uniform; one in sixteen is a long pause
		// (minutes to about a month: hour, day, month boundaries are crossed)
		jump = int64(1000) << uint(s.rng.Intn(25))
		if s.rng.Intn(16) == 0 {
			jump = int64(60e9) << uint(s.rng.Intn(16))
		}
		jump += int64(s.rng.U64() % uint64(jump))
	}
	if jump < 0 {
		jump = 0
	}
	if jump > 0 {
		s.res.Faults.ClockJump++
	}
	s.res.Trace.Clock = append(s.res.Trace.Clock, jump)
	s.clock += jump
	return s.Now()
}

// Now is the simulated clock: 1µs per step plus jumps and sleeps.
func (s *Sim) Now() int64 { return SimEpoch + readSteps()*StepNS + s.clock }

func (s *Sim) randDraw() uint64 {
	var v uint64
	if s.explicit {
		tr := s.spec.Trace
		if s.randIdx < len(tr.Rand) {
			v = tr.Rand[s.randIdx]
		}
		s.randIdx++
	} else {
		v = s.rng.U64()
	}
	s.res.Trace.Rand = append(s.res.Trace.Rand, v)
	return v
}

// PoolSizes reports the number of pooled items per pool (probe).
func (s *Sim) PoolSizes() int {
	n := 0
	for _, it := range s.pools {
		n += len(it)
	}
	return n
}

// EfaceData returns the data word of an interface value (as sync.Pool's
// poolRaceAddr does), used by the pool stub for race annotations.
func EfaceData(x any) uintptr {
	return uintptr((*[2]unsafe.Pointer)(unsafe.Pointer(&x))[1])
}

// ---------------------------------------------------------------- sleepers and timers

func (s *Sim) advanceClock(d int64) {
	if d <= 0 {
		return
	}
	s.clock += d
	s.res.Faults.TimerFire++
	s.res.Trace.Segs = append(s.res.Trace.Segs, [2]int64{-1, d})
}

func (s *Sim) nextWake() (int64, bool) {
	var best int64
	found := false
	for _, t := range s.live {
		if t.state == stSleeping && (!found || t.wakeAt < best) {
			best, found = t.wakeAt, true
		}
	}
	for _, ts := range s.timers {
		if ts.Active && (!found || ts.When < best) {
			best, found = ts.When, true
		}
	}
	return best, found
}

func (s *Sim) addTimer(ts *TimerSpec, delay int64) {
	s.timerID++
	ts.ID = s.timerID
	ts.When = s.Now() + delay
	ts.Active = true
	// drop dead one-shot timers now and then
	if len(s.timers) > 256 {
		live := s.timers[:0]
		for _, x := range s.timers {
			if x.Active {
				live = append(live, x)
			}
		}
		s.timers = live
	}
	s.timers = append(s.timers, ts)
}

// fireDueTimers delivers every timer whose time has come: a non-blocking
// send of the current time on its channel (as the runtime does), or a new
// task running the AfterFunc body.
func (s *Sim) fireDueTimers() {
	now := s.Now()
	for _, ts := range s.timers {
		if !ts.Active || ts.When > now {
			continue
		}
		if ts.Period > 0 {
			ts.When += ts.Period
			if ts.When <= now {
				ts.When = now + ts.Period
			}
		} else {
			ts.Active = false
		}
		s.res.Faults.TimerFire++
		if ts.Fn != nil {
			fn := ts.Fn
			nt := &Task{parent: -1, resume: make(chan reply)}
			nt.body = func(*Task) { fn() }
			nt.ID = len(s.tasks)
			nt.prio = s.rng.Intn(1 << 20)
			s.tasks = append(s.tasks, nt)
			s.live = append(s.live, nt)
			go taskMain(nt)
			continue
		}
		if ts.Ch != 0 {
			c := selCase{send: true, addr: ts.Ch, cap: ts.ChCap, val: TimeValue(now)}
			cs := s.chanOf(c.addr, c.cap)
			if !cs.closed && (len(cs.recvq) > 0 || len(cs.buf) < cs.cap) {
				s.chanDo(c)
			}
		}
	}
}

// TimeValue converts simulated nanoseconds to the value timers send; set by
// package simtime (simrt itself does not import time).
var TimeValue = func(ns int64) any { return ns }

// advanceToNextWake: nothing is runnable but some task sleeps: discrete-event
// jump of the simulated clock to the earliest wake-up.
func (s *Sim) advanceToNextWake() bool {
	if s.explicit {
		// in explicit replay clock advances are part of the recorded trace; after
		// the trace is exhausted fall back to the rule
	}
	w, ok := s.nextWake()
	if !ok {
		return false
	}
	d := w - s.Now()
	if d <= 0 {
		return true
	}
	if s.explicit {
		// the recorded run made the same rule-based advance at this point and
		// wrote it into the trace: consume that entry instead of advancing twice
		segs := s.spec.Trace.Segs
		if s.segLeft <= 0 && s.segIdx < len(segs) && segs[s.segIdx][0] == -1 {
			s.segIdx++
		}
	}
	s.advanceClock(d)
	return true
}

// maybeFireTimer injects "time passes": with the policy's probability the
// clock jumps to the next sleeper's wake-up while callers are in flight, so
// periodic library goroutines (janitors, refreshers) run in the middle of calls.
func (s *Sim) maybeFireTimer() {
	if s.explicit || s.spec.Policy.TimerP <= 0 {
		return
	}
	w, ok := s.nextWake()
	if !ok || w <= s.Now() {
		return
	}
	if s.rng.Float() < s.spec.Policy.TimerP {
		s.advanceClock(w - s.Now())
	}
}

// ---------------------------------------------------------------- channels

type chanWaiter struct {
	t     *Task
	send  bool
	val   any
	idx   int        // case index in the waiter's select
	group *[]uintptr // all channels this waiter is queued on (to dequeue it everywhere)
}

type chanState struct {
	buf    []any
	cap    int
	closed bool
	recvq  []*chanWaiter
	sendq  []*chanWaiter
}

func (s *Sim) chanOf(addr uintptr, cap int) *chanState {
	cs := s.chans[addr]
	if cs == nil {
		cs = &chanState{cap: cap}
		s.chans[addr] = cs
	}
	return cs
}

func (s *Sim) dequeueWaiter(w *chanWaiter) {
	for _, a := range *w.group {
		cs := s.chans[a]
		if cs == nil {
			continue
		}
		for i, x := range cs.recvq {
			if x.t == w.t {
				cs.recvq = append(cs.recvq[:i:i], cs.recvq[i+1:]...)
				break
			}
		}
		for i, x := range cs.sendq {
			if x.t == w.t {
				cs.sendq = append(cs.sendq[:i:i], cs.sendq[i+1:]...)
				break
			}
		}
	}
}

func (s *Sim) wake(w *chanWaiter, n int64, val any) {
	s.dequeueWaiter(w)
	w.t.state = stRunnable
	w.t.pend.n = n | ChanWaited
	w.t.pend.val = val
}

// ChanWaited is set in the reply of a channel operation that could not
// complete when it was requested: the task was woken by whatever completed it.
const ChanWaited = int64(1) << 40

// ready reports whether case c can proceed now.
func (s *Sim) chanReady(c selCase) bool {
	if c.addr == 0 {
		return false
	}
	cs := s.chanOf(c.addr, c.cap)
	if c.send {
		return cs.closed || len(cs.recvq) > 0 || len(cs.buf) < cs.cap
	}
	return len(cs.buf) > 0 || len(cs.sendq) > 0 || cs.closed
}

// chanDo performs case c for task t (it must be ready). Returns reply n (without idx) and value.
func (s *Sim) chanDo(c selCase) (int64, any) {
	cs := s.chanOf(c.addr, c.cap)
	if c.send {
		if cs.closed {
			return 2, nil
		}
		if len(cs.recvq) > 0 {
			w := cs.recvq[0]
			s.wake(w, int64(w.idx)<<2|1, c.val)
			return 1, nil
		}
		cs.buf = append(cs.buf, c.val)
		return 1, nil
	}
	if len(cs.buf) > 0 {
		v := cs.buf[0]
		cs.buf = cs.buf[1:]
		if len(cs.sendq) > 0 { // a blocked sender moves into the freed slot
			w := cs.sendq[0]
			cs.buf = append(cs.buf, w.val)
			s.wake(w, int64(w.idx)<<2|1, nil)
		}
		return 1, v
	}
	if len(cs.sendq) > 0 { // rendezvous
		w := cs.sendq[0]
		v := w.val
		s.wake(w, int64(w.idx)<<2|1, nil)
		return 1, v
	}
	return 0, nil // closed and drained
}

func (s *Sim) chanSelect(t *Task, cases []selCase, hasDefault bool) {
	var ready []int
	for i, c := range cases {
		if s.chanReady(c) {
			ready = append(ready, i)
		}
	}
	if len(ready) > 0 {
		k := ready[0]
		if len(ready) > 1 {
			k = ready[int(s.randDraw()%uint64(len(ready)))]
		}
		n, v := s.chanDo(cases[k])
		t.pend.n = int64(k)<<2 | n
		t.pend.val = v
		return
	}
	if hasDefault {
		t.pend.n = -1
		return
	}
	// block on every case
	group := &[]uintptr{}
	for i, c := range cases {
		if c.addr == 0 {
			continue
		}
		cs := s.chanOf(c.addr, c.cap)
		w := &chanWaiter{t: t, send: c.send, val: c.val, idx: i, group: group}
		*group = append(*group, c.addr)
		if c.send {
			cs.sendq = append(cs.sendq, w)
		} else {
			cs.recvq = append(cs.recvq, w)
		}
	}
	t.state = stChanWait
}

func (s *Sim) chanClose(addr uintptr) int64 {
	cs := s.chanOf(addr, 0)
	if cs.closed {
		return 1
	}
	cs.closed = true
	for len(cs.recvq) > 0 {
		w := cs.recvq[0]
		s.wake(w, int64(w.idx)<<2, nil) // zero value, ok=false
	}
	for len(cs.sendq) > 0 {
		w := cs.sendq[0]
		s.wake(w, int64(w.idx)<<2|2, nil) // panics on the sender's side
	}
	return 0
}

// ---------------------------------------------------------------- garbage collector seam

// The worker switches the collector off (debug.SetGCPercent(-1)); collections
// happen only where the scheduler decides (all task goroutines are parked
// then), so which call's garbage is reclaimed - and which addresses get
// reused - is a recorded decision.
func (s *Sim) forceGC() {
	s.res.Faults.GC++
	s.res.Trace.Segs = append(s.res.Trace.Segs, [2]int64{-2, 1})
	s.libGC()
}

// procGCs counts the collections of this process (reported as MemStats.NumGC).
var procGCs int64

// libGC collects now; not recorded in the trace when the library itself asked
// for it (the request recurs at the same step in a replay).
func (s *Sim) libGC() {
	procGCs++
	GCFunc()
	if FinalizersSeen() {
		// finalizers the collection made due run as tasks of this run
		waitFinalizers()
		for _, f := range takeFinalizers() {
			f := f
			nt := &Task{parent: -1, resume: make(chan reply)}
			nt.body = func(*Task) { f() }
			nt.ID = len(s.tasks)
			nt.prio = s.rng.Intn(1 << 20)
			s.tasks = append(s.tasks, nt)
			s.live = append(s.live, nt)
			s.res.Faults.Finalizer++
			go taskMain(nt)
		}
	}
}

func (s *Sim) maybeGC() {
	if s.explicit {
		return
	}
	if ev := s.spec.Policy.GCEvery; ev > 0 && s.runSteps() >= (s.res.Faults.GC+1)*ev {
		s.forceGC()
		return
	}
	if s.spec.Policy.GCP <= 0 || s.res.Faults.GC >= 2 {
		return
	}
	if s.rng.Float() < s.spec.Policy.GCP {
		s.forceGC()
	}
}

// GCFunc performs the collection (set by the worker; simrt does not import runtime/debug).
var GCFunc = func() {}
