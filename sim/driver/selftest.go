package main

import (
	"fmt"
	"os"
	"os/exec"
	"path/filepath"
	"sort"
	"strings"
	"time"

	"verif/sim/instr"
)

// selftestCmd applies every catalogued mutant (mutants/m*.diff: must be
// detected) and control (mutants/n*.diff: must stay silent) to a scratch copy
// of the repository's working tree and runs the quick check against it.
// It is not a property check: it measures the machinery's sensitivity and silence.
func selftestCmd(verifDir, repoDir string, names []string) int {
	all, _ := filepath.Glob(filepath.Join(verifDir, "mutants", "*.diff"))
	sort.Strings(all)
	// seeded/<id>/patch.diff can be selected by id (or "seeded" for all of them); they run on a scratch
	// copy here - tools/run_seeded.sh is the variant that applies them to /repo itself
	seeded, _ := filepath.Glob(filepath.Join(verifDir, "seeded", "*", "patch.diff"))
	sort.Strings(seeded)
	for _, p := range seeded {
		id := filepath.Base(filepath.Dir(p))
		for _, n := range names {
			if n == id || n == "seeded" {
				all = append(all, p)
			}
		}
	}
	want := map[string]bool{}
	for _, n := range names {
		want[n] = true
	}
	self, _ := os.Executable()
	tier := envOr("SELFTEST_TIER", "quick")
	bad := 0
	type row struct {
		name, expect, got string
		wall              float64
		line              string
	}
	var rows []row
	for _, p := range all {
		name := strings.TrimSuffix(filepath.Base(p), ".diff")
		isSeeded := filepath.Base(p) == "patch.diff"
		expectSilent := strings.HasPrefix(name, "n")
		if isSeeded {
			name = filepath.Base(filepath.Dir(p))
			meta, _ := os.ReadFile(filepath.Join(filepath.Dir(p), "meta.json"))
			expectSilent = strings.Contains(string(meta), `"expect": "silent"`)
		} else if len(want) > 0 && !want[name] && !want[strings.SplitN(name, "_", 2)[0]] {
			continue
		}
		scratch := newScratch()
		tree := filepath.Join(scratch, "tree")
		if _, _, err := instr.SnapshotPlain(repoDir, tree); err != nil {
			harnessFail("selftest: %v", err)
		}
		// fixtures are part of the corpus
		exec.Command("cp", "-r", filepath.Join(repoDir, "tests"), filepath.Join(tree, "tests")).Run()
		if out, err := run(tree, os.Environ(), "patch", "-p1", "-s", "-i", p); err != nil {
			fmt.Printf("%-34s PATCH-FAILED %s\n", name, strings.TrimSpace(out))
			bad++
			os.RemoveAll(scratch)
			continue
		}
		outDir := filepath.Join(scratch, "out")
		os.MkdirAll(outDir, 0o755)
		cmd := exec.Command(self, "C05", tier)
		cmd.Env = append(os.Environ(), "VERIF_REPO="+tree, "VERIF_OUT="+outDir, "VERIF_DIR="+verifDir)
		t0 := time.Now()
		out, err := cmd.CombinedOutput()
		code := 0
		if err != nil {
			if ee, ok := err.(*exec.ExitError); ok {
				code = ee.ExitCode()
			} else {
				code = -1
			}
		}
		expect := "detect"
		if expectSilent {
			expect = "silent"
		}
		got := map[int]string{0: "silent", 1: "detect", 2: "harness-error"}[code]
		if got == "" {
			got = fmt.Sprintf("exit %d", code)
		}
		line := ""
		for _, l := range strings.Split(string(out), "\n") {
			if strings.HasPrefix(l, "VIOLATION") || strings.HasPrefix(l, "HARNESS-ERROR") {
				line = l
				break
			}
		}
		if line != "" && strings.HasPrefix(line, "VIOLATION") {
			// show the one-line summary of the replay
			if i := strings.Index(line, "replay="); i >= 0 {
				if data, err := os.ReadFile(strings.TrimSpace(line[i+7:])); err == nil {
					s := string(data)
					if k := strings.Index(s, `"summary": "`); k >= 0 {
						s = s[k+12:]
						if j := strings.Index(s, "\",\n"); j >= 0 {
							line = trunc(s[:j], 160)
						}
					}
				}
			}
		}
		rows = append(rows, row{name, expect, got, time.Since(t0).Seconds(), line})
		status := "ok  "
		if expect != got {
			status = "FAIL"
			bad++
			if os.Getenv("SELFTEST_VERBOSE") != "" {
				fmt.Println(tail(string(out), 3000))
			}
		}
		fmt.Printf("%s %-36s expect=%-6s got=%-13s %5.1fs  %s\n", status, name, expect, got, time.Since(t0).Seconds(), line)
		os.RemoveAll(scratch)
	}
	fmt.Printf("selftest: %d cases, %d failed\n", len(rows), bad)
	if bad > 0 {
		return 1
	}
	return 0
}
