package main

func selftestCmd(verifDir, repoDir string, names []string) int { return 0 }
