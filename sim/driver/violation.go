package main

import (
	"encoding/json"
	"fmt"
	"os"
	"path/filepath"
	"regexp"
	"sort"
	"strings"
	"time"

	"verif/sim/common"
	"verif/sim/instr"
	"verif/sim/simrt"
	"verif/sim/workerlib"
)

// ---------------------------------------------------------------- race reports

type raceReport struct {
	Text     string
	LibTop   [2]string // first library frame of each of the two accesses
	LibAny   bool      // some frame of the two access stacks is library code
	LibBoth  bool      // each of the two access stacks contains library code
	AllSim   bool      // at least one access stack has no library frame at all: the harness touched library memory
	Accesses [2]string
}

var accessHdr = regexp.MustCompile(`^(Previous )?(atomic )?(Read|Write|read|write) at 0x[0-9a-f]+ by `)

func parseRaceLog(log, modPath, libDir string) []raceReport {
	var out []raceReport
	for _, blk := range strings.Split(log, "==================") {
		if !strings.Contains(blk, "DATA RACE") {
			continue
		}
		rr := raceReport{Text: strings.TrimSpace(blk)}
		lines := strings.Split(blk, "\n")
		acc := -1
		for i := 0; i < len(lines); i++ {
			l := strings.TrimSpace(lines[i])
			if accessHdr.MatchString(l) {
				acc++
				if acc < 2 {
					rr.Accesses[acc] = l
				}
				continue
			}
			if strings.HasPrefix(l, "Goroutine ") {
				acc = 99
				continue
			}
			if acc < 0 || acc > 1 || l == "" {
				continue
			}
			// frame: "  pkg.func()" followed by "      file:line +0x.."
			if strings.HasSuffix(l, ")") && i+1 < len(lines) {
				file := strings.TrimSpace(lines[i+1])
				isLib := strings.HasPrefix(l, modPath+".") || strings.HasPrefix(l, modPath+"/") || strings.HasPrefix(file, libDir+"/")
				if strings.HasPrefix(l, "verif/sim/") || strings.Contains(file, "/verif/sim/") {
					isLib = false
				}
				if isLib {
					rr.LibAny = true
					if rr.LibTop[acc] == "" {
						fn := strings.TrimSuffix(l, "()")
						fn = strings.TrimPrefix(fn, modPath+".")
						fn = strings.TrimPrefix(fn, modPath+"/")
						// file:line relative to lib dir
						loc := strings.TrimPrefix(file, libDir+"/")
						if k := strings.Index(loc, " "); k > 0 {
							loc = loc[:k]
						}
						rr.LibTop[acc] = fn + "@" + loc
					}
				}
			}
		}
		rr.LibBoth = rr.LibTop[0] != "" && rr.LibTop[1] != ""
		rr.AllSim = !rr.LibBoth
		out = append(out, rr)
	}
	return out
}

func raceSig(rr *raceReport) string {
	a := []string{funcOnly(rr.LibTop[0]), funcOnly(rr.LibTop[1])}
	sort.Strings(a)
	return "race/" + a[0] + "|" + a[1]
}

func funcOnly(s string) string {
	if k := strings.Index(s, "@"); k >= 0 {
		return s[:k]
	}
	return s
}

// ---------------------------------------------------------------- signatures

func flipKind(want, got string) string {
	k := func(s string) string {
		if s == "" {
			return "?"
		}
		return s[:1]
	}
	return k(want) + "->" + k(got)
}

func violSig(v *workerlib.Violation) string {
	switch v.Kind {
	case "mismatch":
		return fmt.Sprintf("mismatch/api%d/%s", v.API, flipKind(v.Want, v.Got))
	default:
		return v.Kind
	}
}

// sigsOf returns the set of violation-class signatures a process exhibited.
func sigsOf(e *Env, pr *ProcResult) (map[string]bool, []raceReport, bool) {
	if pr.sigs != nil {
		return pr.sigs, pr.reports, pr.harnessOnly
	}
	sigs, reports, h := sigsOfUncached(e, pr)
	pr.sigs, pr.reports, pr.harnessOnly = sigs, reports, h
	return sigs, reports, h
}

func sigsOfUncached(e *Env, pr *ProcResult) (map[string]bool, []raceReport, bool) {
	sigs := map[string]bool{}
	var reports []raceReport
	harnessOnly := false
	if pr.RaceLog != "" {
		reports = parseRaceLog(pr.RaceLog, e.Report.ModulePath, filepath.Join(e.Scratch, "lib"))
		for i := range reports {
			if reports[i].AllSim {
				harnessOnly = true
				continue
			}
			sigs[raceSig(&reports[i])] = true
			sigs["race"] = true
		}
	}
	for _, v := range pr.Violations {
		if v.Kind == "race" {
			continue // represented by the parsed reports
		}
		sigs[violSig(v)] = true
		if v.Kind == "mismatch" {
			sigs["mismatch"] = true
		}
	}
	return sigs, reports, harnessOnly
}

// ---------------------------------------------------------------- replay files

// Replay is the self-contained replay artefact.
type Replay struct {
	Property   string                  `json:"property"`
	Kind       string                  `json:"kind"`
	Signature  string                  `json:"signature"`
	Summary    string                  `json:"summary"`
	Seed       uint64                  `json:"verif_seed"`
	RunSeed    uint64                  `json:"run_seed"`
	Stage      string                  `json:"stage"`
	TreeDigest string                  `json:"tree_digest"`
	SiteDigest string                  `json:"site_map_digest"`
	Session    []workerlib.ExplicitRun `json:"session"`
	Violation  *workerlib.Violation    `json:"violation,omitempty"`
	RaceReport string                  `json:"race_report,omitempty"`
	Ref        *refViolation           `json:"reference_disagreement,omitempty"`
	Minimised  map[string]interface{}  `json:"minimisation,omitempty"`
	Variant    string                  `json:"variant,omitempty"`
	Knobs      []instr.Knob            `json:"knobs_shrunk_to_2,omitempty"`
	WeakHashes []instr.HashFunc        `json:"hash_functions_weakened,omitempty"`
	WeakBits   int                     `json:"hash_bits_kept,omitempty"`
	SimProcs   int                     `json:"simulated_gomaxprocs,omitempty"`
	SimEpoch   int64                   `json:"simulated_epoch_ns,omitempty"`
	StepNS     int64                   `json:"simulated_ns_per_step,omitempty"`
	Readable   []string                `json:"readable"`
	HowTo      string                  `json:"how_to_replay"`
}

func readable(session []workerlib.ExplicitRun) []string {
	var out []string
	for ri, r := range session {
		sh := ""
		if r.Share {
			sh = " (calls asking the same input pass the very same string value)"
		}
		out = append(out, fmt.Sprintf("run %d: %d task(s)%s", ri, len(r.Tasks), sh))
		for ti, t := range r.Tasks {
			var cs []string
			for _, c := range t {
				in, _ := common.UnB64(c.In)
				exp, _ := common.UnB64(c.Exp)
				cs = append(cs, fmt.Sprintf("%s(%q) [ref %s]", apiName(int(c.API)), trunc(in, 100), trunc(exp, 40)))
			}
			out = append(out, fmt.Sprintf("  task %d: %s", ti, strings.Join(cs, " ; ")))
		}
		if r.Trace != nil {
			var sg []string
			for _, s := range r.Trace.Segs {
				sg = append(sg, fmt.Sprintf("t%d x%d", s[0], s[1]))
			}
			out = append(out, "  schedule (task x steps): "+strings.Join(sg, ", ")+" ; then fair round-robin")
			if len(r.Trace.Pool) > 0 {
				out = append(out, fmt.Sprintf("  pool decisions (item index, -1 = miss): %v", r.Trace.Pool))
			}
			if len(r.Trace.Clock) > 0 {
				out = append(out, fmt.Sprintf("  clock jumps (ns): %v", r.Trace.Clock))
			}
		}
	}
	return out
}

func apiName(a int) string {
	if a == 0 {
		return "IsSQLi"
	}
	return "IsXSS"
}

// ---------------------------------------------------------------- running explicit sessions

// refreshExpected recomputes the reference results of every call of a session
// on the CURRENT tree: each distinct (api,input) as the only call of a fresh process.
func refreshExpected(e *Env, session []workerlib.ExplicitRun) error {
	type key struct {
		api uint8
		in  string
	}
	uniq := map[key]string{}
	var keys []key
	for _, r := range session {
		for _, t := range r.Tasks {
			for _, c := range t {
				k := key{c.API, c.In}
				if _, ok := uniq[k]; !ok {
					uniq[k] = ""
					keys = append(keys, k)
				}
			}
		}
	}
	res := make([]string, len(keys))
	errs := make([]error, len(keys))
	if len(keys) <= 4000 {
		parallel(len(keys), 16, func(i int) {
			in, _ := common.UnB64(keys[i].in)
			res[i], errs[i] = refOne(e, int(keys[i].api), in)
		})
	} else {
		var calls []workerlib.ECall
		for _, k := range keys {
			calls = append(calls, workerlib.ECall{API: k.api, In: k.in})
		}
		r, err := refList(e, calls)
		if err != nil {
			return err
		}
		copy(res, r)
	}
	for i, k := range keys {
		if errs[i] != nil {
			return errs[i]
		}
		uniq[k] = res[i]
	}
	for ri := range session {
		for ti := range session[ri].Tasks {
			for ci := range session[ri].Tasks[ti] {
				c := &session[ri].Tasks[ti][ci]
				c.Exp = common.B64(uniq[key{c.API, c.In}])
			}
		}
	}
	return nil
}

// curVariant is the worker variant explicit sessions run on (set while a
// violation found on the knob-shrunk build is confirmed / minimised / replayed).
var curVariant string

// curSimProcs: the simulated GOMAXPROCS/NumCPU of the process in which a
// violation was found; explicit sessions derived from it run with the same value.
var curSimProcs int

// curSimEpoch: likewise the simulated wall-clock epoch of that process.
var curSimEpoch int64

// curStepNS: likewise the simulated nanoseconds per step.
var curStepNS int64

func runExplicit(e *Env, session []workerlib.ExplicitRun) *ProcResult {
	ses := &workerlib.Session{Mode: "explicit", Explicit: session, Variant: curVariant}
	return runWorker(e, ses, 1, 5*time.Minute)
}

// reproduces reports whether an explicit session shows the signature.
func reproduces(e *Env, session []workerlib.ExplicitRun, sig string) (bool, *ProcResult) {
	pr := runExplicit(e, session)
	if pr.Summary == nil && len(pr.Violations) == 0 {
		return false, pr
	}
	sigs, _, _ := sigsOf(e, pr)
	return sigs[sig], pr
}

func cloneSession(s []workerlib.ExplicitRun) []workerlib.ExplicitRun {
	b, _ := json.Marshal(s)
	var out []workerlib.ExplicitRun
	json.Unmarshal(b, &out)
	return out
}

// ---------------------------------------------------------------- minimisation

type minimiser struct {
	e     *Env
	sig   string
	tests int
	start time.Time
	limit time.Duration
}

func (m *minimiser) ok(s []workerlib.ExplicitRun) bool {
	if time.Since(m.start) > m.limit {
		return false
	}
	m.tests++
	r, _ := reproduces(m.e, s, m.sig)
	return r
}

// tryAll evaluates candidates in parallel and returns the index of the first
// (lowest index) that still reproduces, or -1.
func (m *minimiser) tryAll(cands [][]workerlib.ExplicitRun) int {
	if len(cands) == 0 {
		return -1
	}
	res := make([]bool, len(cands))
	parallel(len(cands), 16, func(i int) { res[i] = m.ok(cands[i]) })
	for i, r := range res {
		if r {
			return i
		}
	}
	return -1
}

func sessionSize(s []workerlib.ExplicitRun) (runs, tasks, calls, segs, bytes int) {
	runs = len(s)
	for _, r := range s {
		tasks += len(r.Tasks)
		for _, t := range r.Tasks {
			calls += len(t)
			for _, c := range t {
				in, _ := common.UnB64(c.In)
				bytes += len(in)
			}
		}
		if r.Trace != nil {
			segs += len(r.Trace.Segs)
		}
	}
	return
}

// minimise shrinks an explicit session while the same violation class persists:
// drop runs -> drop tasks -> drop calls -> remove preemptions -> canonical
// pool/clock decisions -> shorten inputs. Every candidate runs in a fresh cold process.
func (m *minimiser) minimise(s []workerlib.ExplicitRun) []workerlib.ExplicitRun {
	cur := cloneSession(s)
	changed := true
	over := func() bool { return time.Since(m.start) > m.limit }
	// 0. very long schedules (a caller that never returns while library
	// goroutines keep ticking): every candidate would cost the full trace, so
	// cut the tail of the last run's trace first - after the recorded prefix the
	// explicit policy continues fair round-robin
	if ri := len(cur) - 1; ri >= 0 && cur[ri].Trace != nil && len(cur[ri].Trace.Segs) > 5000 {
		for _, k := range []int{0, 8, 64, 512, 4096} {
			if over() {
				break
			}
			c := cloneSession(cur)
			c[ri].Trace.Segs = c[ri].Trace.Segs[:k:k]
			if m.ok(c) {
				cur = c
				break
			}
		}
	}
	for round := 0; changed && round < 6 && !over(); round++ {
		changed = false
		// 1. drop runs (keep the last one: it is where the violation showed): the
		// last run alone, the second half, then ddmin over the runs before the last
		if len(cur) > 1 && !over() {
			var cands [][]workerlib.ExplicitRun
			cands = append(cands, cloneSession(cur[len(cur)-1:]))
			if len(cur) > 2 {
				cands = append(cands, cloneSession(cur[len(cur)/2:]))
			}
			if k := m.tryAll(cands); k >= 0 {
				cur = cands[k]
				changed = true
			}
		}
		gran := 2
		for len(cur) > 1 && !over() {
			n := len(cur) - 1
			if gran > n {
				gran = n
			}
			per := (n + gran - 1) / gran
			var cands [][]workerlib.ExplicitRun
			for a := 0; a < n && len(cands) < 16; a += per {
				b := a + per
				if b > n {
					b = n
				}
				c := cloneSession(cur)
				cands = append(cands, append(c[:a:a], c[b:]...))
			}
			if k := m.tryAll(cands); k >= 0 {
				cur = cands[k]
				changed = true
				if gran > 2 {
					gran--
				}
				continue
			}
			if per <= 1 {
				break
			}
			gran *= 2
		}
		// 2. drop tasks
		for ri := range cur {
			if over() {
				break
			}
			for again := true; again && !over(); {
				again = false
				var cands [][]workerlib.ExplicitRun
				for ti := range cur[ri].Tasks {
					if len(cur[ri].Tasks) <= 1 {
						break
					}
					c := cloneSession(cur)
					c[ri] = dropTask(c[ri], ti)
					cands = append(cands, c)
				}
				if k := m.tryAll(cands); k >= 0 {
					cur = cands[k]
					changed, again = true, true
				}
			}
		}
		// 3. drop calls: ddmin over each task's call list (chunks first, then single calls)
		for ri := range cur {
			if over() {
				break
			}
			for ti := 0; ti < len(cur[ri].Tasks); ti++ {
				gran := 2
				for len(cur[ri].Tasks[ti]) > 1 && !over() {
					n := len(cur[ri].Tasks[ti])
					if gran > n {
						gran = n
					}
					per := (n + gran - 1) / gran
					var cands [][]workerlib.ExplicitRun
					for a := 0; a < n && len(cands) < 32; a += per {
						b := a + per
						if b > n {
							b = n
						}
						if b-a >= n {
							continue
						}
						c := cloneSession(cur)
						t := c[ri].Tasks[ti]
						c[ri].Tasks[ti] = append(t[:a:a], t[b:]...)
						cands = append(cands, c)
					}
					if k := m.tryAll(cands); k >= 0 {
						cur = cands[k]
						changed = true
						if gran > 2 {
							gran--
						}
						continue
					}
					if per <= 1 {
						break
					}
					gran *= 2
				}
			}
		}
		// 4. fewer preemptions: no schedule at all (pure sequential), then drop segments one by one
		for ri := range cur {
			if over() {
				break
			}
			if cur[ri].Trace == nil {
				continue
			}
			for again := true; again && !over(); {
				again = false
				var cands [][]workerlib.ExplicitRun
				if len(cur[ri].Trace.Segs) > 0 {
					c := cloneSession(cur)
					c[ri].Trace.Segs = nil
					cands = append(cands, c)
					// sequential in task order
					c2 := cloneSession(cur)
					c2[ri].Trace.Segs = nil
					for ti := range c2[ri].Tasks {
						c2[ri].Trace.Segs = append(c2[ri].Trace.Segs, [2]int64{int64(ti), 1 << 40})
					}
					if len(c2[ri].Trace.Segs) < len(cur[ri].Trace.Segs) {
						cands = append(cands, c2)
					}
				}
				// chunks of segments first (halves, quarters, ...), then single segments
				nseg := len(cur[ri].Trace.Segs)
				for parts := 2; parts <= 16 && parts <= nseg && len(cands) < 40; parts *= 2 {
					per := (nseg + parts - 1) / parts
					for a := 0; a < nseg && len(cands) < 40; a += per {
						b := a + per
						if b > nseg {
							b = nseg
						}
						c := cloneSession(cur)
						sg := c[ri].Trace.Segs
						c[ri].Trace.Segs = append(sg[:a:a], sg[b:]...)
						cands = append(cands, c)
					}
				}
				for si := 0; si < nseg && nseg <= 32; si++ {
					if len(cands) >= 72 {
						break
					}
					c := cloneSession(cur)
					sg := c[ri].Trace.Segs
					c[ri].Trace.Segs = append(sg[:si:si], sg[si+1:]...)
					cands = append(cands, c)
				}
				if k := m.tryAll(cands); k >= 0 {
					cur = cands[k]
					cur[ri].Trace.Segs = mergeSegs(cur[ri].Trace.Segs)
					changed, again = true, true
				}
			}
			// 5. canonical pool / clock / rand decisions
			var cands [][]workerlib.ExplicitRun
			if len(cur[ri].Trace.Pool) > 0 {
				c := cloneSession(cur)
				c[ri].Trace.Pool = nil // default: LIFO, the same object comes back
				cands = append(cands, c)
			}
			if len(cur[ri].Trace.Clock) > 0 {
				c := cloneSession(cur)
				c[ri].Trace.Clock = nil
				cands = append(cands, c)
			}
			if len(cur[ri].Trace.Rand) > 0 {
				c := cloneSession(cur)
				c[ri].Trace.Rand = nil
				cands = append(cands, c)
			}
			for _, c := range cands {
				if m.ok(c) {
					cur = c
					changed = true
				}
			}
		}
		// 6. shorten inputs (the changed call needs a fresh reference value)
		for ri := range cur {
			for ti := range cur[ri].Tasks {
				for ci := range cur[ri].Tasks[ti] {
					for again := true; again && !over(); {
						again = false
						in, _ := common.UnB64(cur[ri].Tasks[ti][ci].In)
						if len(in) <= 1 {
							break
						}
						var cands [][]workerlib.ExplicitRun
						cs := cuts(in)
						exps := make([]string, len(cs))
						errs := make([]error, len(cs))
						api := int(cur[ri].Tasks[ti][ci].API)
						parallel(len(cs), 16, func(i int) { exps[i], errs[i] = refOne(m.e, api, cs[i]) })
						for i, cut := range cs {
							if errs[i] != nil {
								continue
							}
							c := cloneSession(cur)
							c[ri].Tasks[ti][ci].In = common.B64(cut)
							c[ri].Tasks[ti][ci].Exp = common.B64(exps[i])
							c[ri].Tasks[ti][ci].Idx = -1
							cands = append(cands, c)
						}
						if k := m.tryAll(cands); k >= 0 {
							cur = cands[k]
							changed, again = true, true
						}
					}
				}
			}
		}
	}
	return cur
}

func cuts(in string) []string {
	n := len(in)
	var out []string
	seen := map[string]bool{in: true}
	add := func(s string) {
		if s != "" && !seen[s] && len(out) < 14 {
			seen[s] = true
			out = append(out, s)
		}
	}
	add(in[:n/2])
	add(in[n/2:])
	add(in[:n*3/4])
	add(in[n/4:])
	add(in[:n-1])
	add(in[1:])
	if n > 4 {
		add(in[:n/3] + in[2*n/3:])
		add(in[:n/2] + in[n/2+1:])
	}
	return out
}

func mergeSegs(s [][2]int64) [][2]int64 {
	var out [][2]int64
	for _, x := range s {
		if n := len(out); n > 0 && out[n-1][0] == x[0] {
			out[n-1][1] += x[1]
		} else {
			out = append(out, x)
		}
	}
	return out
}

func dropTask(r workerlib.ExplicitRun, ti int) workerlib.ExplicitRun {
	r.Tasks = append(r.Tasks[:ti:ti], r.Tasks[ti+1:]...)
	if r.Trace != nil {
		var segs [][2]int64
		for _, s := range r.Trace.Segs {
			switch {
			case int(s[0]) == ti:
			case int(s[0]) > ti && int(s[0]) < len(r.Tasks)+1:
				segs = append(segs, [2]int64{s[0] - 1, s[1]})
			default:
				segs = append(segs, s)
			}
		}
		r.Trace.Segs = mergeSegs(segs)
	}
	return r
}

// ---------------------------------------------------------------- from a found violation to a replay file

// explicitPrefix re-runs the worker session that produced a violation with
// DumpExplicit so that all runs up to the failing one are available in explicit form.
func explicitPrefix(e *Env, fv *foundViolation) []workerlib.ExplicitRun {
	ses := *fv.Proc.Session
	ses.DumpExplicit = true
	ses.DistinctPath = ""
	ses.Samples = 0
	switch ses.Mode {
	case "rand":
		ses.Runs = fv.V.RunIndex + 1
	case "pairs":
		if to := ses.From + (fv.V.RunIndex+1)*8; to < ses.To {
			ses.To = to
		}
	case "hist":
		if to := ses.From + (fv.V.RunIndex+1)*128; to < ses.To {
			ses.To = to
		}
	case "family":
		if to := ses.From + fv.V.RunIndex + 1; to < ses.To {
			ses.To = to
		}
	case "repeat":
		if to := ses.From + fv.V.RunIndex/2 + 1; to < ses.To {
			ses.To = to
		}
	case "coldburst":
	case "chain":
		ses.To = (fv.V.RunIndex + 1) * 400
	case "soak":
		// (burst runs come first; the whole session up to the failing run is replayed as dumped)
	case "longpairs":
		if st := ses.Runs; st > 1 {
			if to := ses.From + (fv.V.RunIndex+1)*st + st; to < ses.To {
				ses.To = to
			}
		} else if to := ses.From + fv.V.RunIndex + 1; to < ses.To {
			ses.To = to
		}
	case "solo", "wrap", "overlap", "stall", "retain":
		if to := ses.From + fv.V.RunIndex + 1; to < ses.To {
			ses.To = to
		}
	}
	ses.StopOnViol = false
	pr := runWorker(e, &ses, 1, 15*time.Minute)
	var out []workerlib.ExplicitRun
	for i, r := range pr.Runs {
		if i > fv.V.RunIndex {
			break
		}
		out = append(out, *r)
	}
	return out
}

// processViolation confirms, minimises and writes the replay file. It returns
// the path, or "" if the violation could not be reproduced (harness problem).
func processViolation(e *Env, c *Check, fv *foundViolation, limit time.Duration) (string, string) {
	if fv.C != nil {
		c = fv.C // judge against the corpus and references of the round it was found in
	}
	curVariant = fv.Proc.Session.Variant
	curSimProcs = fv.Proc.Session.SimProcs
	curSimEpoch = fv.Proc.Session.SimEpoch
	curStepNS = fv.Proc.Session.StepNS
	defer func() { curVariant = ""; curSimProcs = 0; curSimEpoch = 0; curStepNS = 0 }()
	sig := violSig(fv.V)
	pickRaceSig := func(pr *ProcResult) string {
		sg, _, _ := sigsOf(e, pr)
		var all []string
		for s := range sg {
			if strings.HasPrefix(s, "race/") {
				all = append(all, s)
			}
		}
		sort.Strings(all)
		if len(all) > 0 {
			return all[0]
		}
		return "race"
	}
	if fv.V.Kind == "race" {
		sig = "race"
	}
	session := []workerlib.ExplicitRun{*fv.V.Run}
	if fv.V.Kind == "mismatch" && fv.Stage != "reference" {
		// Judge against fresh-process truth, not against the in-sequence corpus
		// reference (which a history-dependent library may have contaminated).
		session = cloneSession(session)
		if err := refreshExpected(e, session); err != nil {
			harnessFail("reference evaluation failed: %v", err)
		}
		prF := runExplicit(e, session)
		var first *workerlib.Violation
		for _, v := range prF.Violations {
			if v.Kind == "mismatch" {
				first = v
				break
			}
		}
		switch {
		case first != nil:
			sig = violSig(first)
		case fv.V.Task >= 0 && fv.V.Call >= 0 && fv.V.Task < len(session)+len(session[0].Tasks):
			// the run agrees with fresh truth: then the corpus reference itself was
			// history dependent. Rebuild the history from the reference pass.
			call := fv.V.Run.Tasks[fv.V.Task][fv.V.Call]
			if call.Idx >= 0 && c.Corpus != nil && int(call.Idx) < c.Corpus.Len() {
				in := c.Corpus.In[call.Idx]
				if fresh, err := refOne(e, int(call.API), in); err == nil && fresh != fv.V.Want {
					rv := &refViolation{What: "reference result inside a sequential pass differs from the fresh-process result", API: int(call.API), Input: common.B64(in), A: fresh, B: fv.V.Want, Idx: int(call.Idx), Kind: "fresh"}
					if v2, ses2 := c.refToSession(rv); v2 != nil {
						session = ses2
						sig = violSig(v2)
						fv = &foundViolation{V: v2, Proc: &ProcResult{Session: &workerlib.Session{Mode: "explicit", Explicit: ses2, Variant: curVariant}, Violations: []*workerlib.Violation{v2}}, Stage: "reference"}
					}
				}
			}
		}
	}
	ok, pr := reproduces(e, session, sig)
	how := "single run in a fresh process"
	if !ok {
		// the failure may need the earlier runs of that process (library state carried over)
		full := explicitPrefix(e, fv)
		if len(full) > 0 {
			if ok2, pr2 := reproduces(e, full, sig); ok2 {
				ok, pr, session = true, pr2, full
				how = fmt.Sprintf("needs process history: %d runs", len(full))
			}
		}
	}
	if ok && fv.V.Kind == "race" {
		sig = pickRaceSig(pr)
	}
	_ = pr
	if !ok {
		return "", sig
	}
	m := &minimiser{e: e, sig: sig, start: time.Now(), limit: limit}
	r0, t0, c0, s0, b0 := sessionSize(session)
	small := m.minimise(session)
	r1, t1, c1, s1, b1 := sessionSize(small)
	// final confirmation in a fresh process (and collect the final report text)
	okF, prF := reproduces(e, small, sig)
	if !okF {
		small = session
		okF, prF = reproduces(e, small, sig)
		if !okF {
			return "", sig
		}
	}
	rp := &Replay{Property: "C05", Kind: fv.V.Kind, Signature: sig, Seed: c.Seed, RunSeed: fv.V.Seed, Stage: fv.Stage,
		TreeDigest: e.TreeDig, SiteDigest: e.Report.SiteDigest, Session: small, HowTo: "cd /verif && ./run C05 --replay <this file>"}
	rp.SimProcs = curSimProcs
	rp.SimEpoch = curSimEpoch
	rp.StepNS = curStepNS
	if v := e.Variants[curVariant]; v != nil {
		rp.Variant = v.Name
		rp.Knobs = v.Knobs
		rp.WeakHashes = v.Weak
		rp.WeakBits = v.Bits
	}
	rp.Minimised = map[string]interface{}{
		"before":         map[string]int{"runs": r0, "tasks": t0, "calls": c0, "schedule_segments": s0, "input_bytes": b0},
		"after":          map[string]int{"runs": r1, "tasks": t1, "calls": c1, "schedule_segments": s1, "input_bytes": b1},
		"candidate_runs": m.tests, "wall_s": time.Since(m.start).Seconds(), "confirmed_by": how,
	}
	for _, v := range prF.Violations {
		if v.Kind == fv.V.Kind || (sig != "race" && violSig(v) == sig) {
			vv := *v
			vv.Run = nil
			rp.Violation = &vv
			break
		}
	}
	if rp.Violation == nil {
		vv := *fv.V
		vv.Run = nil
		rp.Violation = &vv
	}
	if prF.RaceLog != "" {
		rs := parseRaceLog(prF.RaceLog, e.Report.ModulePath, filepath.Join(e.Scratch, "lib"))
		for _, r := range rs {
			if !r.AllSim {
				rp.RaceReport = strings.ReplaceAll(r.Text, filepath.Join(e.Scratch, "lib")+"/", "<repo>/")
				break
			}
		}
	}
	rp.Readable = readable(small)
	switch fv.V.Kind {
	case "race":
		rp.Summary = "data race between concurrent callers (" + strings.TrimPrefix(sig, "race/") + ")"
	case "mismatch":
		rp.Summary = "result differs from the reference result of the same input: " + rp.Violation.Detail
	default:
		rp.Summary = fv.V.Kind + ": " + fv.V.Detail
	}
	if len(rp.Knobs) > 0 {
		var ks []string
		for _, k := range rp.Knobs {
			ks = append(ks, fmt.Sprintf("%s=%d->2 (%s:%d)", k.Name, k.Value, k.File, k.Line))
		}
		rp.Summary += " [configuration fault: capacity constants shrunk: " + strings.Join(ks, ", ") + "; the shrink leaves the result of a single call in a fresh process unchanged]"
	}
	if len(rp.WeakHashes) > 0 {
		var hs []string
		for _, h := range rp.WeakHashes {
			hs = append(hs, fmt.Sprintf("%s %s (%s:%d)", h.Name, h.Ret, h.File, h.Line))
		}
		rp.Summary += fmt.Sprintf(" [configuration fault: hash function(s) %s weakened to %d bits: colliding keys - which exist for any fixed-width hash - become frequent; the violation needs such a collision]", strings.Join(hs, ", "), rp.WeakBits)
	}
	return writeReplay(e, rp), sig
}

func writeReplay(e *Env, rp *Replay) string {
	dir := filepath.Join(e.OutDir, "replays")
	os.MkdirAll(dir, 0o755)
	b, _ := json.MarshalIndent(rp, "", " ")
	h := simrt.Mix(uint64(len(b)), hashStr(string(b)), 3)
	name := fmt.Sprintf("C05-%s-%016x.json", sanitize(rp.Signature), h)
	p := filepath.Join(dir, name)
	if err := os.WriteFile(p, b, 0o644); err != nil {
		harnessFail("cannot write replay file: %v", err)
	}
	return p
}

func hashStr(s string) uint64 {
	h := uint64(1469598103934665603)
	for i := 0; i < len(s); i++ {
		h = (h ^ uint64(s[i])) * 1099511628211
	}
	return h
}

func sanitize(s string) string {
	var b strings.Builder
	for _, r := range s {
		switch {
		case r >= 'a' && r <= 'z', r >= 'A' && r <= 'Z', r >= '0' && r <= '9':
			b.WriteRune(r)
		default:
			b.WriteByte('_')
		}
	}
	out := b.String()
	if len(out) > 60 {
		out = out[:60]
	}
	return out
}

func simrtPolicyExplicit() simrt.Policy { return simrt.Policy{Kind: "explicit"} }
