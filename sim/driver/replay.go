package main

import (
	"encoding/json"
	"fmt"
	"os"
	"strings"

	"verif/sim/common"
	"verif/sim/instr"
)

// replayCmd re-executes a replay file against the CURRENT working tree.
// Exit 1 (with a VIOLATION line) if the same violation class shows again,
// 0 if it does not ("not reproduced on this tree"), 2 on harness trouble.
func replayCmd(verifDir, repoDir, path string) int {
	data, err := os.ReadFile(path)
	if err != nil {
		fmt.Fprintln(os.Stderr, "replay:", err)
		return 2
	}
	var rp Replay
	if err := json.Unmarshal(data, &rp); err != nil {
		fmt.Fprintln(os.Stderr, "replay:", err)
		return 2
	}
	e := prepare(verifDir, repoDir)
	fmt.Printf("replay %s: signature %s, tree digest now %s (recorded %s)\n", path, rp.Signature, e.TreeDig, rp.TreeDigest)
	if rp.Ref != nil {
		in, _ := common.UnB64(rp.Ref.Input)
		a, err1 := refOne(e, rp.Ref.API, in)
		if err1 != nil {
			harnessFail("replay: %v", err1)
		}
		// sequential context: evaluate the recorded corpus neighbourhood is not
		// available; compare fresh-process result with an in-sequence evaluation
		// of the same input after the full literal corpus
		c := &Check{E: e, Tier: "quick", Seed: rp.Seed, Agg: newAgg(), NCPU: 16, Log: func(string, ...interface{}) {}, Timings: map[string]float64{}}
		c.reference()
		if len(c.RefViol) > 0 {
			fmt.Printf("reproduced: %s\n", c.RefViol[0].What)
			fmt.Printf("VIOLATION property=C05 replay=%s\n", path)
			return 1
		}
		fmt.Printf("not reproduced on this tree (fresh-process result %q)\n", a)
		return 0
	}
	if len(rp.Session) == 0 {
		fmt.Fprintln(os.Stderr, "replay: file has no session")
		return 2
	}
	curSimProcs = rp.SimProcs
	curSimEpoch = rp.SimEpoch
	curStepNS = rp.StepNS
	if rp.Variant != "" {
		// the same knobs / hash functions (by name, file, value) must still exist in the current tree
		var ks []instr.Knob
		for _, want := range rp.Knobs {
			for _, have := range e.Report.Knobs {
				if have.Name == want.Name && have.File == want.File && have.Value == want.Value && have.Use == want.Use {
					ks = append(ks, have)
					break
				}
			}
		}
		var hs []instr.HashFunc
		for _, want := range rp.WeakHashes {
			for _, have := range e.Report.HashFuncs {
				if have.Name == want.Name && have.File == want.File && have.Var == want.Var && have.Inline == want.Inline {
					hs = append(hs, have)
					break
				}
			}
		}
		if len(ks) != len(rp.Knobs) || len(hs) != len(rp.WeakHashes) {
			fmt.Println("not reproduced on this tree: the constants / hash functions the replay's configuration variant changes no longer exist")
			return 0
		}
		if err := prepareVariant(e, rp.Variant, ks, hs, rp.WeakBits); err != nil {
			fmt.Println("not reproduced on this tree: the configuration variant does not build:", err)
			return 0
		}
		curVariant = rp.Variant
	}
	if err := refreshExpected(e, rp.Session); err != nil {
		harnessFail("replay: reference evaluation failed: %v", err)
	}
	ok, pr := reproduces(e, rp.Session, rp.Signature)
	if !ok && strings.HasPrefix(rp.Signature, "race/") {
		ok, pr = reproduces(e, rp.Session, "race")
	}
	if pr.Summary == nil && len(pr.Violations) == 0 {
		harnessFail("replay: worker failed: %v\n%s", pr.ExitErr, tail(pr.Stderr, 3000))
	}
	for _, v := range pr.Violations {
		fmt.Printf("  observed: %s %s\n", v.Kind, v.Detail)
	}
	if pr.RaceLog != "" {
		fmt.Println(tail(pr.RaceLog, 3000))
	}
	if ok {
		fmt.Printf("reproduced: %s\n", rp.Summary)
		fmt.Printf("VIOLATION property=C05 replay=%s\n", path)
		return 1
	}
	fmt.Println("not reproduced on this tree")
	return 0
}
