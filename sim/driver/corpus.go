package main

import (
	"os"
	"path/filepath"
	"sort"
	"strconv"
	"strings"

	"verif/sim/common"
	"verif/sim/simrt"
)

type corpusStats struct {
	Fixtures, Literals, Residues, Probes, Mutated, Long, Reps, Grown, Family, Padded, Total int
}

// parseFixture returns the --INPUT-- section of a libinjection test file.
func parseFixture(data string) (string, bool) {
	i := strings.Index(data, "--INPUT--\n")
	if i < 0 {
		return "", false
	}
	rest := data[i+len("--INPUT--\n"):]
	j := strings.Index(rest, "--EXPECTED--")
	if j < 0 {
		return "", false
	}
	return strings.TrimSpace(rest[:j]), true
}

func readLiteralFile(path string) []string {
	data, err := os.ReadFile(path)
	if err != nil {
		return nil
	}
	var out []string
	for _, line := range strings.Split(string(data), "\n") {
		if line == "" || strings.HasPrefix(line, "#") {
			continue
		}
		if strings.HasPrefix(line, `"`) {
			if s, err := strconv.Unquote(line); err == nil {
				out = append(out, s)
				continue
			}
		}
		out = append(out, line)
	}
	return out
}

var interesting = []byte("'\"<>=/\\`-#;()*!?&%@+,.:[]{}|^~ \t\n\r\x00\x0b\x0caAzZ019_xXqQnNuUeE")

// buildCorpus assembles the input corpus (DESIGN.md §3.5). Only its
// composition depends on seed (mutations, residue representatives); the
// oracle is self-referential, so any input is sound.
func buildCorpus(e *Env, seed uint64, nMut int, long bool) (*common.Corpus, corpusStats) {
	c := &common.Corpus{}
	var st corpusStats
	seen := map[string]int{}
	add := func(s string, fl int) int {
		if i, ok := seen[s]; ok {
			c.Flags[i] |= fl
			return i
		}
		seen[s] = len(c.In)
		c.In = append(c.In, s)
		c.Flags = append(c.Flags, fl)
		return len(c.In) - 1
	}
	// 1. fixtures
	fx, _ := filepath.Glob(filepath.Join(e.RepoDir, "tests", "*.txt"))
	sort.Strings(fx)
	var bases []string
	for _, p := range fx {
		data, err := os.ReadFile(p)
		if err != nil {
			continue
		}
		if in, ok := parseFixture(string(data)); ok && in != "" {
			add(in, common.FFixture)
			bases = append(bases, in)
			st.Fixtures++
		}
	}
	// 2. literals kept with the framework
	lits, _ := filepath.Glob(filepath.Join(e.VerifDir, "corpus", "*.txt"))
	sort.Strings(lits)
	var litBases []string
	for _, p := range lits {
		probe := strings.HasPrefix(filepath.Base(p), "probe")
		if strings.HasPrefix(filepath.Base(p), "grown") {
			// inputs found by an earlier coverage-guided growth on the pinned tree:
			// plain corpus members (no residues are derived from them)
			for _, s := range readLiteralFile(p) {
				add(s, common.FGrown)
				st.Grown++
			}
			continue
		}
		for _, s := range readLiteralFile(p) {
			fl := common.FLiteral
			if probe {
				fl |= common.FProbe
			}
			add(s, fl)
			litBases = append(litBases, s)
			st.Literals++
		}
	}
	r := simrt.NewRNG(seed ^ 0xc0ffee)
	// 3. probes: literal probes + a fixed sample of short fixtures
	short := []string{}
	for _, b := range bases {
		if len(b) <= 48 {
			short = append(short, b)
		}
	}
	sort.Strings(short)
	for k := 0; k < len(short) && k < 400; k += 1 + len(short)/60 {
		add(short[k], common.FProbe)
	}
	// 4. residues: every proper prefix of the literals and of a sample of fixtures
	resBases := append([]string(nil), litBases...)
	fsample := append([]string(nil), bases...)
	sort.Strings(fsample)
	for k := 0; k < len(fsample); k += 3 {
		if len(fsample[k]) <= 100 {
			resBases = append(resBases, fsample[k])
		}
	}
	var residues []int
	for _, b := range resBases {
		if len(b) > 160 {
			continue
		}
		for n := 1; n < len(b); n++ {
			if len(residues) > 14000 {
				break
			}
			residues = append(residues, add(b[:n], common.FResidue))
		}
	}
	// residue representatives for the systematic history sweep: a fixed half
	// (stable across seeds) and a seed-dependent half
	sort.Ints(residues)
	residues = uniqInts(residues)
	nrep := 420
	if len(residues) > 0 {
		step := len(residues)/(nrep/2) + 1
		for k := 0; k < len(residues); k += step {
			c.Flags[residues[k]] |= common.FRep
		}
		for k := 0; k < nrep/2; k++ {
			c.Flags[residues[r.Intn(len(residues))]] |= common.FRep
		}
	}
	// 5. mutations
	pool := append(append([]string(nil), bases...), litBases...)
	for k := 0; k < nMut && len(pool) > 0; k++ {
		s := []byte(pool[r.Intn(len(pool))])
		if len(s) > 300 {
			s = s[:300]
		}
		for m := 1 + r.Intn(3); m > 0; m-- {
			switch r.Intn(6) {
			case 0: // flip
				if len(s) > 0 {
					s[r.Intn(len(s))] = interesting[r.Intn(len(interesting))]
				}
			case 1: // insert
				p := r.Intn(len(s) + 1)
				s = append(s[:p:p], append([]byte{interesting[r.Intn(len(interesting))]}, s[p:]...)...)
			case 2: // delete
				if len(s) > 1 {
					p := r.Intn(len(s))
					s = append(s[:p:p], s[p+1:]...)
				}
			case 3: // duplicate a slice
				if len(s) > 1 {
					a := r.Intn(len(s))
					b := a + 1 + r.Intn(len(s)-a)
					s = append(s[:b:b], append(append([]byte(nil), s[a:b]...), s[b:]...)...)
				}
			case 4: // splice with another input
				o := pool[r.Intn(len(pool))]
				if len(o) > 150 {
					o = o[:150]
				}
				p := r.Intn(len(s) + 1)
				q := r.Intn(len(o) + 1)
				s = append(s[:p:p], o[q:]...)
			case 5: // random byte
				if len(s) > 0 {
					s[r.Intn(len(s))] = byte(r.Intn(256))
				}
			}
		}
		add(string(s), common.FMutated)
	}
	// 6. long inputs in size classes (length thresholds in the code under test are
	// usually powers of two): one call spans thousands of steps; every class in a
	// positive-early, a benign, a SQLi-positive-early and an attribute-context flavour
	if long {
		filler := "lorem ipsum dolor sit amet consectetur adipiscing elit sed do eiusmod tempor "
		fill := func(head string, n int) string {
			var b strings.Builder
			b.WriteString(head)
			for b.Len() < n {
				b.WriteString(filler)
			}
			return b.String()[:n]
		}
		for _, n := range []int{600, 1300, 2700, 5000, 9000, 17000, 33000, 66000} {
			add(fill("<script>alert(1)</script> ", n), common.FLong)
			add(fill("", n), common.FLong)
			add(fill("1 union select 1,2,3 from t -- ", n), common.FLong)
			add(fill("x\" onmouseover=alert(1) y=\"", n), common.FLong)
		}
		// unusual input classes: empty, NUL-only, whitespace-only, invalid UTF-8,
		// exact powers of two (and one off), deep nesting, very many tokens
		for _, u := range []string{"", "\x00", strings.Repeat("\x00", 16), strings.Repeat("\x00", 1000), " ", strings.Repeat(" \t\n", 100),
			"\xff\xfe", "\xc0\x80", "\xed\xa0\x80", "sel\xffect 1", "<scr\xc0ipt>", "\xf0\x9f\x92\xa9 or 1=1", "1\xa0or\xa01=1"} {
			add(u, common.FLiteral|common.FOdd)
		}
		// text that GROWS under case mapping or sanitising: invalid UTF-8 bytes become
		// 3-byte U+FFFD, a few letters have longer upper-case forms (buffers sized
		// "the key is never longer than the word")
		for _, n := range []int{6, 11, 16, 33, 64, 100, 400} {
			hi := strings.Repeat("\xff", n)
			add(hi, common.FLiteral|common.FOdd)
			add("1 union "+hi+" select 1", common.FLiteral|common.FOdd)
			add("select "+strings.Repeat("\xc0\xe9", n/2)+" from t", common.FLiteral|common.FOdd)
			add("<"+hi+" onerror=alert(1)>", common.FLiteral|common.FOdd)
			add("<a "+hi+"=1 href=javascript:x>", common.FLiteral|common.FOdd)
			add("1 or "+strings.Repeat("\u0250", n)+"=1", common.FLiteral|common.FOdd) // U+0250 (2 bytes) upper-cases to U+2C6F (3 bytes)
		}
		for _, n := range []int{255, 256, 257, 511, 512, 513, 1023, 1024, 1025, 2048, 4096, 8192, 16384, 32768, 65535, 65536, 65537} {
			add(fill("", n), common.FLong)
		}
		add(strings.Repeat("(", 3000)+"1"+strings.Repeat(")", 3000), common.FLong)
		add(strings.Repeat("<a", 3000), common.FLong)
		add(strings.Repeat("<div>", 1500)+strings.Repeat("</div>", 1500), common.FLong)
		// more than 2^16 tokens for either tokenizer (token budgets, 16-bit counters)
		add(strings.Repeat("1,", 40000), common.FLong)
		add(strings.Repeat("<b>", 40000), common.FLong)
		add(strings.Repeat("<a x=1 y=2>", 12000), common.FLong)
		// the payload only AFTER a long skippable run (whitespace, control and
		// high bytes, entities, a comment): bounded scratch buffers, clamped
		// decode windows and "look at the first N bytes" shortcuts cut exactly these
		for _, n := range []int{600, 2500, 9000, 17000, 40000} {
			add("<a href=\""+strings.Repeat(" ", n)+"javascript:alert(1)\">x</a>", common.FLong)
			add("<iframe src='"+strings.Repeat("&#9;\x7f", n/5)+"data:text/html,x'>", common.FLong)
			add(strings.Repeat(" ", n)+"1 union select 1,2,3 -- ", common.FLong)
			add("1 /*"+strings.Repeat("x", n)+"*/ union select 1,2,3 -- ", common.FLong)
			add(strings.Repeat("\t\n", n/2)+"<script>alert(1)</script>", common.FLong)
			// ... and after a long run that is NOT skippable (must be carried along)
			add("<a href=\""+strings.Repeat("A", n)+"javascript:alert(1)\">x</a>", common.FLong)
			add("<img src='http://example.com/"+strings.Repeat("a/", n/2)+"' onerror=alert(1)>", common.FLong)
			add(fill("", n)+" <script>alert(1)</script>", common.FLong)
			add(fill("", n)+" ' or 1=1 -- ", common.FLong)
			add("'"+strings.Repeat("a", n)+"' union select 1,2,3 -- ", common.FLong)
		}
		// huge single tokens: thresholds like 64 KiB or 1 MiB sit on token or input size
		for _, n := range []int{70000, 1100000} {
			add(strings.Repeat("A", n), common.FHuge|common.FLong)
			add("<a href=\""+strings.Repeat("B", n)+"\">", common.FHuge|common.FLong)
			add("1 or '"+strings.Repeat("C", n)+"'='", common.FHuge|common.FLong)
		}
		add(fill("", 300000), common.FHuge|common.FLong)
		// long TOKENS (one attribute value, string, comment, word of 300 B .. 5 kB):
		// scratch buffers and fast paths are usually sized per token, not per input
		word := func(n int) string { return strings.Repeat("abcdefghij", n/10+1)[:n] }
		for _, n := range []int{300, 700, 1500, 5000} {
			v := fill("", n)
			add("<a href=\"http://example.com/"+v+"\">x</a>", common.FLong)
			add("<a href=javascript:"+word(n)+">", common.FLong)
			add("<img src="+word(n)+" onerror="+word(n/2)+">", common.FLong)
			add("<x style=\""+v+"\" y=1>", common.FLong)
			add("<"+word(n)+" x=1>", common.FLong)
			add("1 or '"+v+"' = '"+v+"'", common.FLong)
			add("1 /* "+v+" */ union select 1", common.FLong)
			add("select "+word(n)+" from t where `"+word(n)+"` = 1", common.FLong)
		}
		// every second fixture / literal padded with filler: the head (first tokens,
		// first tags) keeps deciding the verdict while the length crosses thresholds
		padBases := append(append([]string(nil), bases...), litBases...)
		sizes := []int{600, 1100, 2300, 4700, 9000}
		np := 0
		for k := 0; k < len(padBases); k += 2 {
			b := padBases[k]
			if len(b) < 3 || len(b) > 300 {
				continue
			}
			n := sizes[np%len(sizes)]
			sep := []string{" ", " -- ", "\n", " /* */ ", "> "}[np%5]
			add(fill(b+sep, n), common.FPadded)
			np++
		}
		// multi-context splices: two inputs joined by a quote, so that one part is
		// seen as-is and the other inside a quoted parsing context (both detectors
		// evaluate several contexts per call and report the first that matches);
		// half of them padded beyond 1 kB
		for k := 0; k < 260 && len(pool) > 1; k++ {
			a, b := pool[r.Intn(len(pool))], pool[r.Intn(len(pool))]
			if len(a) > 120 || len(b) > 120 {
				continue
			}
			q := []string{" ' ", " \" ", "' ", "\" ", " ` ", "'>", "\">"}[r.Intn(7)]
			sp := a + q + b
			if k%5 == 0 && len(sp) < 90 {
				// three parts, both quote kinds: positive in the single- AND the double-quoted context
				c3 := pool[r.Intn(len(pool))]
				if len(c3) <= 60 {
					add(a+" ' "+b+" \" "+c3, common.FMutated|common.FSplice)
				}
			}
			if k%2 == 0 {
				add(sp, common.FMutated|common.FSplice)
			} else {
				add(fill(sp+" ", []int{1100, 2300, 4700}[k%3]), common.FPadded)
			}
		}
		// injection tails: what follows the closing quote in a classic injection; joined
		// to a corpus input they are positive as-is (head) AND in the quoted context (tail)
		tails := []string{"or 1=1 --", "or '1'='1", "union select 1,2 --", "and 1=1", "; drop table t --", "or 1=1#", "|| 1=1 --", "or sleep(1) --",
			" onmouseover=alert(1) x=", "><script>alert(1)</script>", " style=x:expression(1) x=", " autofocus onfocus=alert(1) x="}
		for k := 0; k < 150 && len(pool) > 0; k++ {
			a := pool[r.Intn(len(pool))]
			if len(a) > 80 {
				continue
			}
			q := []string{" ' ", " \" ", "' ", "\" ", "'", "\""}[k%6]
			add(a+q+tails[k%len(tails)], common.FMutated|common.FSplice)
		}
		// benign head, then a part behind a single quote and another behind a double
		// quote: not SQLi as-is, but (often) in BOTH quoted contexts with different fingerprints
		for k := 0; k < 80 && len(litBases) > 1; k++ {
			p1, p2 := litBases[r.Intn(len(litBases))], litBases[r.Intn(len(litBases))]
			if len(p1) > 40 || len(p2) > 40 {
				continue
			}
			head := []string{"x", "foo", "a1", "", "zz top"}[k%5]
			if k%2 == 0 {
				add(head+"' "+tails[k%8]+" \" "+tails[(k/2+3)%8], common.FMutated|common.FSplice)
				add(head+"' "+p1+" \" "+p2, common.FMutated|common.FSplice)
			} else {
				add(head+"\" "+tails[k%8]+" ' "+tails[(k/2+5)%8], common.FMutated|common.FSplice)
				add(head+"\" "+p1+" ' "+p2, common.FMutated|common.FSplice)
			}
		}
		longPats := []string{"1 union select ", "<a href=x ", "a' or 1=1 -- ", "/*! 1 */ ", "&#x6A;av"}
		for i, p := range longPats {
			n := 10000 + 6000*i
			add(strings.Repeat(p, n/len(p)+1), common.FLong)
		}
		for k := 0; k < 3 && len(pool) > 0; k++ {
			var b strings.Builder
			for b.Len() < 12000+9000*k {
				b.WriteString(pool[r.Intn(len(pool))])
				b.WriteByte(' ')
			}
			add(b.String(), common.FLong)
		}
	}
	for _, f := range c.Flags {
		if f&common.FResidue != 0 {
			st.Residues++
		}
		if f&common.FProbe != 0 {
			st.Probes++
		}
		if f&common.FMutated != 0 {
			st.Mutated++
		}
		if f&common.FLong != 0 {
			st.Long++
		}
		if f&common.FRep != 0 {
			st.Reps++
		}
		if f&common.FPadded != 0 {
			st.Padded++
		}
	}
	st.Total = c.Len()
	return c, st
}

func uniqInts(a []int) []int {
	out := a[:0]
	for i, v := range a {
		if i == 0 || v != a[i-1] {
			out = append(out, v)
		}
	}
	return out
}

var famFixedWords = []string{"script", "svg", "iframe", "style", "onerror", "onload", "href", "src", "xmlns", "select", "union", "sleep", "and", "or", "null", "from", "javascript", "data", "import", "entity", "xml", "like", "exec", "pg_sleep", "current_user", "load_file"}

var famSQLTemplates = []string{"%s", "1 or %s", "`%s`", "1 or `%s`", "'%s'", "\"%s\"", "@%s", "%s(1)", "`%s`(1)", "1 %s 1", "select %s from t"}
var famXSSTemplates = []string{"<%s>", "<%s x=1>", "<a %s=1>", "<a href=%s:x>", "<a %s>", "%s=1", "</%s>", "<!--%s-->", "<?%s?>", "<a style=%s>", "<img src=\"%s:\">", "<a href=%s>"}

// addFamilies appends token families to the corpus: one word (plain, upper
// case, with an embedded NUL, mixed case) instantiated in every SQLi and XSS
// syntactic position. Words: a fixed list plus a seeded sample of the
// identifier-like strings found in the library's own tables.
func addFamilies(c *common.Corpus, dict []string, seed uint64, novel []string) int {
	r := simrt.NewRNG(seed ^ 0xfa3117)
	words := append([]string(nil), famFixedWords...)
	// words that the baseline tree does not contain come first: a change that
	// adds a table entry or a special-cased literal gets that literal exercised
	for k, w := range novel {
		if k >= 120 {
			break
		}
		w = strings.ToLower(strings.Trim(w, " :=<>/\\\"'`"))
		if len(w) >= 2 && len(w) <= 24 && !strings.ContainsAny(w, "\n\t\x00 ") {
			words = append(words, w)
		}
	}
	var ident []string
	for _, d := range dict {
		ok := len(d) >= 3 && len(d) <= 14
		for i := 0; i < len(d) && ok; i++ {
			ch := d[i]
			if !(ch >= 'a' && ch <= 'z' || ch >= 'A' && ch <= 'Z' || ch == '_' || (i > 0 && ch >= '0' && ch <= '9')) {
				ok = false
			}
		}
		if ok {
			ident = append(ident, strings.ToLower(d))
		}
	}
	for k := 0; k < 22 && len(ident) > 0; k++ {
		words = append(words, ident[r.Intn(len(ident))])
	}
	seen := map[string]int{}
	for i, in := range c.In {
		seen[in] = i
	}
	for len(c.Group) < len(c.In) {
		c.Group = append(c.Group, 0)
	}
	group := int32(0)
	n := 0
	done := map[string]bool{}
	for _, w := range words {
		if done[w] {
			continue
		}
		done[w] = true
		mid := len(w) / 2
		mixed := []byte(w)
		for i := range mixed {
			if i%2 == 0 && mixed[i] >= 'a' && mixed[i] <= 'z' {
				mixed[i] -= 32
			}
		}
		variants := []string{w, strings.ToUpper(w), w[:mid] + "\x00" + w[mid:], string(mixed)}
		// Unicode simple-fold collisions: KELVIN SIGN folds to k, LONG S folds to s.
		// Case-insensitive matching done two different ways disagrees exactly here.
		if i := strings.IndexAny(w, "kK"); i >= 0 {
			variants = append(variants, strings.ToUpper(w[:i])+"\u212a"+strings.ToUpper(w[i+1:]))
		}
		if i := strings.IndexAny(w, "sS"); i >= 0 {
			variants = append(variants, w[:i]+"\u017f"+w[i+1:])
		}
		// ... and the Turkic pair: U+0130 lower-cases to i, U+0131 upper-cases to I.
		// With KELVIN SIGN and LONG S these are all the non-ASCII letters whose case
		// mapping lands in ASCII: upper-casing, lower-casing and ASCII-only folding
		// disagree exactly on them.
		if i := strings.IndexAny(w, "iI"); i >= 0 {
			variants = append(variants, strings.ToUpper(w[:i])+"\u0130"+strings.ToUpper(w[i+1:]), w[:i]+"\u0131"+w[i+1:])
		}
		// case-bit confusion: bytes next to the letter ranges differ from another
		// printable byte only in bit 0x20 ('_' / DEL, '@' / '`', '[' / '{' ...); folding
		// done with bit arithmetic instead of a range check conflates them
		for i := 0; i < len(w); i++ {
			c := w[i]
			if c >= 0x40 && c <= 0x7f && !(c >= 'a' && c <= 'z') && !(c >= 'A' && c <= 'Z') {
				variants = append(variants, w[:i]+string([]byte{c ^ 0x20})+w[i+1:])
				break
			}
		}
		// near-miss spellings: one character replaced by a digit / punctuation (tables
		// indexed by a character class, prefix tests followed by a lookup)
		if len(w) >= 4 {
			variants = append(variants, w[:2]+"1"+w[3:], w[:1]+"-"+w[2:])
		}
		// one family per WORD; members template-major so that all spellings of the
		// word in one syntactic position are asked back to back
		group++
		tmpl := append(append([]string(nil), famSQLTemplates...), famXSSTemplates...)
		for _, t := range tmpl {
			for _, v := range variants {
				in := strings.Replace(t, "%s", v, 1)
				if i, ok := seen[in]; ok {
					if c.Group[i] == 0 {
						c.Group[i] = group
						c.Flags[i] |= common.FFamily
					}
					continue
				}
				seen[in] = len(c.In)
				c.In = append(c.In, in)
				c.Flags = append(c.Flags, common.FFamily)
				c.Group = append(c.Group, group)
				n++
			}
		}
	}
	return n
}

// novelLiterals returns the string literals of the current tree that the
// committed baseline list (taken from the pinned tree) does not contain.
func novelLiterals(verifDir string, lits []string) []string {
	base := map[string]bool{}
	data, err := os.ReadFile(filepath.Join(verifDir, "corpus", "baseline_literals.lst"))
	if err != nil {
		return nil
	}
	for _, l := range strings.Split(string(data), "\n") {
		if s, err := strconv.Unquote(l); err == nil {
			base[s] = true
		}
	}
	var out []string
	for _, l := range lits {
		if !base[l] {
			out = append(out, l)
		}
	}
	return out
}
