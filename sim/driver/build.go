package main

import (
	"bytes"
	"fmt"
	"os"
	"os/exec"
	"path/filepath"
	"strings"
	"sync"
	"time"

	"verif/sim/instr"
)

// Env is everything a check run needs to know about its surroundings.
type Env struct {
	VerifDir string // /verif
	OutDir   string // where evidence/ and replays/ are written (VerifDir unless VERIF_OUT is set)
	RepoDir  string // /repo
	SimDir   string // /verif/sim
	Scratch  string // removed on exit
	GoBin    string
	Report   *instr.Report
	TreeDig  string
	Worker   string // path of race-built worker binary
	Refeval  string // path of plain reference evaluator
	BuildS   float64
}

func goEnv() []string {
	env := os.Environ()
	env = append(env, "GOFLAGS=-mod=mod", "GOPROXY=off", "GOSUMDB=off", "GOTOOLCHAIN=local", "CGO_ENABLED=1", "GOWORK=off")
	return env
}

// harnessFail reports a problem of the machinery itself (never a VIOLATION) and exits 2.
func harnessFail(format string, a ...interface{}) {
	fmt.Fprintf(os.Stderr, "HARNESS-ERROR: "+format+"\n", a...)
	cleanupScratch()
	os.Exit(2)
}

var scratchDirs []string
var scratchMu sync.Mutex

func cleanupScratch() {
	scratchMu.Lock()
	defer scratchMu.Unlock()
	if os.Getenv("VERIF_KEEP_SCRATCH") != "" {
		return
	}
	for _, d := range scratchDirs {
		os.RemoveAll(d)
	}
	scratchDirs = nil
}

func newScratch() string {
	base := os.Getenv("VERIF_SCRATCH_BASE")
	if base == "" {
		if st, err := os.Stat("/dev/shm"); err == nil && st.IsDir() {
			base = "/dev/shm"
		} else {
			base = os.TempDir()
		}
	}
	d, err := os.MkdirTemp(base, "verif-c05-")
	if err != nil {
		harnessFail("cannot create scratch dir: %v", err)
	}
	scratchMu.Lock()
	scratchDirs = append(scratchDirs, d)
	scratchMu.Unlock()
	return d
}

func run(dir string, env []string, name string, args ...string) (string, error) {
	cmd := exec.Command(name, args...)
	cmd.Dir = dir
	cmd.Env = env
	var buf bytes.Buffer
	cmd.Stdout = &buf
	cmd.Stderr = &buf
	err := cmd.Run()
	return buf.String(), err
}

// prepare snapshots the repository working tree, instruments it and builds the
// worker (race) and the reference evaluator (plain) from it.
func prepare(verifDir, repoDir string) *Env {
	t0 := time.Now()
	e := &Env{VerifDir: verifDir, RepoDir: repoDir, SimDir: filepath.Join(verifDir, "sim"), GoBin: "go"}
	e.OutDir = verifDir
	if o := os.Getenv("VERIF_OUT"); o != "" {
		e.OutDir = o
	}
	e.Scratch = newScratch()
	plain := filepath.Join(e.Scratch, "plain")
	lib := filepath.Join(e.Scratch, "lib")
	dig, files, err := instr.SnapshotPlain(repoDir, plain)
	if err != nil {
		harnessFail("snapshot of %s failed: %v", repoDir, err)
	}
	if len(files) == 0 {
		harnessFail("no Go files under %s", repoDir)
	}
	e.TreeDig = dig
	rep, err := instr.Instrument(plain, lib, e.SimDir)
	if err != nil {
		harnessFail("instrumenter: %v", err)
	}
	e.Report = rep
	if len(rep.Refusals) > 0 {
		harnessFail("the working tree uses constructs the simulator cannot put behind a seam (no verdict possible):\n  %s", strings.Join(rep.Refusals, "\n  "))
	}

	mainTmpl := func(pkg, call string) string {
		return fmt.Sprintf("package main\n\nimport (\n\tlib %q\n\t%q\n)\n\nfunc main() { %s }\n", rep.ModulePath, "verif/sim/"+pkg, call)
	}
	modTmpl := func(name, libdir string) string {
		return fmt.Sprintf("module %s\n\ngo 1.23\n\nrequire (\n\t%s v0.0.0\n\tverif/sim v0.0.0\n)\n\nreplace %s => %s\n\nreplace verif/sim => %s\n", name, rep.ModulePath, rep.ModulePath, libdir, e.SimDir)
	}
	wmod := filepath.Join(e.Scratch, "wmod")
	rmod := filepath.Join(e.Scratch, "rmod")
	bin := filepath.Join(e.Scratch, "bin")
	for _, d := range []string{wmod, rmod, bin, filepath.Join(e.Scratch, "logs"), filepath.Join(e.Scratch, "ses")} {
		os.MkdirAll(d, 0o755)
	}
	must(os.WriteFile(filepath.Join(wmod, "go.mod"), []byte(modTmpl("verifworker", lib)), 0o644))
	must(os.WriteFile(filepath.Join(wmod, "main.go"), []byte(mainTmpl("workerlib", "workerlib.Main(lib.IsSQLi, lib.IsXSS, lib.VerifGlobals, lib.VerifGlobalNames)")), 0o644))
	must(os.WriteFile(filepath.Join(rmod, "go.mod"), []byte(modTmpl("verifref", plain)), 0o644))
	must(os.WriteFile(filepath.Join(rmod, "main.go"), []byte(mainTmpl("refeval", "refeval.Main(lib.IsSQLi, lib.IsXSS)")), 0o644))

	e.Worker = filepath.Join(bin, "worker")
	e.Refeval = filepath.Join(bin, "refeval")
	var wg sync.WaitGroup
	var outW, outR string
	var errW, errR error
	wg.Add(2)
	go func() {
		defer wg.Done()
		outW, errW = run(wmod, goEnv(), e.GoBin, "build", "-race", "-tags", "verif", "-o", e.Worker, ".")
	}()
	go func() {
		defer wg.Done()
		outR, errR = run(rmod, goEnv(), e.GoBin, "build", "-tags", "verif", "-o", e.Refeval, ".")
	}()
	wg.Wait()
	if errR != nil {
		harnessFail("building the reference evaluator from the working tree failed (does /repo compile?):\n%s", outR)
	}
	if errW != nil {
		harnessFail("building the instrumented worker failed:\n%s", outW)
	}
	e.BuildS = time.Since(t0).Seconds()
	return e
}

func must(err error) {
	if err != nil {
		harnessFail("%v", err)
	}
}
