package main

import (
	"bytes"
	"fmt"
	"os"
	"os/exec"
	"path/filepath"
	"strings"
	"sync"
	"time"

	"verif/sim/instr"
)

// Env is everything a check run needs to know about its surroundings.
type Env struct {
	VerifDir string // /verif
	OutDir   string // where evidence/ and replays/ are written (VerifDir unless VERIF_OUT is set)
	RepoDir  string // /repo
	SimDir   string // /verif/sim
	Scratch  string // removed on exit
	GoBin    string
	Report   *instr.Report
	TreeDig  string
	Worker   string              // path of race-built worker binary
	Refeval  string              // path of plain reference evaluator
	Cover    string              // instrumented, non-race build (coverage-guided corpus growth)
	Variants map[string]*Variant // configuration variants built for this run ("small", "weakhash")
	BuildS   float64
}

func goEnv() []string {
	env := os.Environ()
	env = append(env, "GOFLAGS=-mod=mod", "GOPROXY=off", "GOSUMDB=off", "GOTOOLCHAIN=local", "CGO_ENABLED=1", "GOWORK=off")
	return env
}

// harnessFail reports a problem of the machinery itself (never a VIOLATION) and exits 2.
func harnessFail(format string, a ...interface{}) {
	fmt.Fprintf(os.Stderr, "HARNESS-ERROR: "+format+"\n", a...)
	cleanupScratch()
	os.Exit(2)
}

var scratchDirs []string
var scratchMu sync.Mutex

func cleanupScratch() {
	scratchMu.Lock()
	defer scratchMu.Unlock()
	if os.Getenv("VERIF_KEEP_SCRATCH") != "" {
		return
	}
	for _, d := range scratchDirs {
		os.RemoveAll(d)
	}
	scratchDirs = nil
}

func newScratch() string {
	base := os.Getenv("VERIF_SCRATCH_BASE")
	if base == "" {
		if st, err := os.Stat("/dev/shm"); err == nil && st.IsDir() {
			base = "/dev/shm"
		} else {
			base = os.TempDir()
		}
	}
	d, err := os.MkdirTemp(base, "verif-c05-")
	if err != nil {
		harnessFail("cannot create scratch dir: %v", err)
	}
	scratchMu.Lock()
	scratchDirs = append(scratchDirs, d)
	scratchMu.Unlock()
	return d
}

func run(dir string, env []string, name string, args ...string) (string, error) {
	cmd := exec.Command(name, args...)
	cmd.Dir = dir
	cmd.Env = env
	var buf bytes.Buffer
	cmd.Stdout = &buf
	cmd.Stderr = &buf
	err := cmd.Run()
	return buf.String(), err
}

// prepare snapshots the repository working tree, instruments it and builds the
// worker (race) and the reference evaluator (plain) from it.
func prepare(verifDir, repoDir string) *Env {
	t0 := time.Now()
	e := &Env{VerifDir: verifDir, RepoDir: repoDir, SimDir: filepath.Join(verifDir, "sim"), GoBin: "go"}
	e.OutDir = verifDir
	if o := os.Getenv("VERIF_OUT"); o != "" {
		e.OutDir = o
	}
	e.Scratch = newScratch()
	plain := filepath.Join(e.Scratch, "plain")
	lib := filepath.Join(e.Scratch, "lib")
	dig, files, err := instr.SnapshotPlain(repoDir, plain)
	if err != nil {
		harnessFail("snapshot of %s failed: %v", repoDir, err)
	}
	if len(files) == 0 {
		harnessFail("no Go files under %s", repoDir)
	}
	e.TreeDig = dig
	instr.BaselineCmpInts = loadBaselineCmp(verifDir)
	rep, err := instr.Instrument(plain, lib, e.SimDir)
	if err != nil {
		harnessFail("instrumenter: %v", err)
	}
	e.Report = rep
	if len(rep.Refusals) > 0 {
		harnessFail("the working tree uses constructs the simulator cannot put behind a seam (no verdict possible):\n  %s", strings.Join(rep.Refusals, "\n  "))
	}

	mainTmpl := func(pkg, call string) string {
		return fmt.Sprintf("package main\n\nimport (\n\tlib %q\n\t%q\n)\n\nfunc main() { %s }\n", rep.ModulePath, "verif/sim/"+pkg, call)
	}
	modTmpl := func(name, libdir string) string {
		return fmt.Sprintf("module %s\n\ngo 1.23\n\nrequire (\n\t%s v0.0.0\n\tverif/sim v0.0.0\n)\n\nreplace %s => %s\n\nreplace verif/sim => %s\n", name, rep.ModulePath, rep.ModulePath, libdir, e.SimDir)
	}
	wmod := filepath.Join(e.Scratch, "wmod")
	rmod := filepath.Join(e.Scratch, "rmod")
	bin := filepath.Join(e.Scratch, "bin")
	for _, d := range []string{wmod, rmod, bin, filepath.Join(e.Scratch, "logs"), filepath.Join(e.Scratch, "ses")} {
		os.MkdirAll(d, 0o755)
	}
	must(os.WriteFile(filepath.Join(wmod, "go.mod"), []byte(modTmpl("verifworker", lib)), 0o644))
	must(os.WriteFile(filepath.Join(wmod, "main.go"), []byte(mainTmpl("workerlib", "workerlib.Main(lib.IsSQLi, lib.IsXSS, lib.VerifGlobals, lib.VerifGlobalNames)")), 0o644))
	must(os.WriteFile(filepath.Join(rmod, "go.mod"), []byte(modTmpl("verifref", plain)), 0o644))
	must(os.WriteFile(filepath.Join(rmod, "main.go"), []byte(mainTmpl("refeval", "refeval.Main(lib.IsSQLi, lib.IsXSS)")), 0o644))

	e.Worker = filepath.Join(bin, "worker")
	e.Refeval = filepath.Join(bin, "refeval")
	e.Cover = filepath.Join(bin, "cover")
	var wg sync.WaitGroup
	var outW, outR, outC string
	var errW, errR, errC error
	wg.Add(3)
	go func() {
		defer wg.Done()
		outC, errC = run(wmod, goEnv(), e.GoBin, "build", "-tags", "verif", "-o", e.Cover, ".")
	}()
	go func() {
		defer wg.Done()
		outW, errW = run(wmod, goEnv(), e.GoBin, "build", "-race", "-tags", "verif", "-o", e.Worker, ".")
	}()
	go func() {
		defer wg.Done()
		outR, errR = run(rmod, goEnv(), e.GoBin, "build", "-tags", "verif", "-o", e.Refeval, ".")
	}()
	wg.Wait()
	if errR != nil {
		harnessFail("building the reference evaluator from the working tree failed (does /repo compile?):\n%s", outR)
	}
	if errW != nil {
		harnessFail("building the instrumented worker failed:\n%s", outW)
	}
	if errC != nil {
		harnessFail("building the instrumented non-race worker failed:\n%s", outC)
	}
	e.BuildS = time.Since(t0).Seconds()
	return e
}

func must(err error) {
	if err != nil {
		harnessFail("%v", err)
	}
}

// Variant is a configuration variant of the tree under test.
type Variant struct {
	Name  string
	Bin   string
	Knobs []instr.Knob     // capacity constants shrunk to 2
	Weak  []instr.HashFunc // narrow hash functions weakened to Bits bits
	Bits  int
}

// prepareVariant builds a configuration variant (DESIGN.md 6.2): capacity-like
// constants shrunk to 2 and/or narrow hash functions weakened to a few bits.
func prepareVariant(e *Env, name string, knobs []instr.Knob, weak []instr.HashFunc, bits int) error {
	shrink := map[int]string{}
	for _, k := range knobs {
		shrink[k.ID] = "2"
	}
	weaken := map[int]int{}
	for _, h := range weak {
		weaken[h.ID] = bits
	}
	plain := filepath.Join(e.Scratch, "plain")
	lib := filepath.Join(e.Scratch, "lib_"+name)
	os.RemoveAll(lib)
	rep, err := instr.InstrumentVariant(plain, lib, e.SimDir, shrink, weaken)
	if err != nil {
		return err
	}
	wmod := filepath.Join(e.Scratch, "wmod_"+name)
	os.MkdirAll(wmod, 0o755)
	mod := fmt.Sprintf("module verifworker\n\ngo 1.23\n\nrequire (\n\t%s v0.0.0\n\tverif/sim v0.0.0\n)\n\nreplace %s => %s\n\nreplace verif/sim => %s\n", rep.ModulePath, rep.ModulePath, lib, e.SimDir)
	main := fmt.Sprintf("package main\n\nimport (\n\tlib %q\n\t\"verif/sim/workerlib\"\n)\n\nfunc main() { workerlib.Main(lib.IsSQLi, lib.IsXSS, lib.VerifGlobals, lib.VerifGlobalNames) }\n", rep.ModulePath)
	if err := os.WriteFile(filepath.Join(wmod, "go.mod"), []byte(mod), 0o644); err != nil {
		return err
	}
	if err := os.WriteFile(filepath.Join(wmod, "main.go"), []byte(main), 0o644); err != nil {
		return err
	}
	out := filepath.Join(e.Scratch, "bin", "worker_"+name)
	if o, err := run(wmod, goEnv(), e.GoBin, "build", "-race", "-tags", "verif", "-o", out, "."); err != nil {
		return fmt.Errorf("variant does not build: %s", tail(o, 600))
	}
	if e.Variants == nil {
		e.Variants = map[string]*Variant{}
	}
	e.Variants[name] = &Variant{Name: name, Bin: out, Knobs: knobs, Weak: weak, Bits: bits}
	return nil
}

func prepareSmall(e *Env, knobs []instr.Knob) error { return prepareVariant(e, "small", knobs, nil, 0) }

func loadBaselineCmp(verifDir string) map[int64]bool {
	data, err := os.ReadFile(filepath.Join(verifDir, "corpus", "baseline_cmpints.lst"))
	if err != nil {
		return nil
	}
	m := map[int64]bool{}
	for _, l := range strings.Fields(string(data)) {
		var v int64
		if _, err := fmt.Sscan(l, &v); err == nil {
			m[v] = true
		}
	}
	return m
}
