package main

import (
	"bufio"
	"bytes"
	"context"
	"encoding/binary"
	"encoding/json"
	"fmt"
	"os"
	"os/exec"
	"path/filepath"
	"sort"
	"strings"
	"sync"
	"sync/atomic"
	"time"

	"verif/sim/common"
	"verif/sim/simrt"
	"verif/sim/workerlib"
)

// ProcResult is what one worker process produced.
type ProcResult struct {
	Session    *workerlib.Session
	Summary    *workerlib.Summary
	Violations []*workerlib.Violation
	Samples    []json.RawMessage
	Runs       []*workerlib.ExplicitRun
	RaceLog    string
	Stderr     string
	ExitErr    error
	TimedOut   bool
	WallS      float64

	sigs        map[string]bool
	reports     []raceReport
	harnessOnly bool
}

var procSeq int64

// runWorker executes one worker process for a session and parses its output.
func runWorker(e *Env, ses *workerlib.Session, maxprocs int, timeout time.Duration) *ProcResult {
	id := atomic.AddInt64(&procSeq, 1)
	sesPath := filepath.Join(e.Scratch, "ses", fmt.Sprintf("s%d.json", id))
	b, _ := json.Marshal(ses)
	must(os.WriteFile(sesPath, b, 0o644))
	logPrefix := filepath.Join(e.Scratch, "logs", fmt.Sprintf("race%d", id))
	ctx, cancel := context.WithTimeout(context.Background(), timeout)
	defer cancel()
	bin := e.Worker
	if ses.Mode == "cover" {
		bin = e.Cover
	}
	if v := e.Variants[ses.Variant]; v != nil {
		bin = v.Bin
	}
	cmd := exec.CommandContext(ctx, bin, sesPath)
	if maxprocs <= 0 {
		maxprocs = 1
	}
	if ses.Mode == "cover" {
		cmd.Env = append(os.Environ(), "VERIF_UNMANAGED=1")
	} else {
		cmd.Env = os.Environ()
	}
	if ses.SimProcs == 0 {
		// configuration knob per worker process: what the library believes the parallelism to be
		ses.SimProcs = []int{8, 1, 2, 4, 16}[ses.Worker%5]
		if curSimProcs > 0 {
			ses.SimProcs = curSimProcs
		}
	}
	if ses.SimEpoch == 0 {
		// per process: a different moment within roughly three years from 2023-11-14
		ses.SimEpoch = int64(1700000000e9) + int64(simrt.Mix(ses.Seed, uint64(ses.Worker), 0xe90c)%uint64(1000*24*3600))*int64(1e9)/10*10
		if ses.Mode == "seqall" || ses.Mode == "cover" {
			ses.SimEpoch = int64(1700000000e9)
		}
		if curSimEpoch > 0 {
			ses.SimEpoch = curSimEpoch
		}
	}
	if ses.StepNS == 0 {
		ses.StepNS = []int64{1000, 100, 10, 1000, 1}[(ses.Worker/5)%5]
		if ses.Mode == "seqall" || ses.Mode == "cover" {
			ses.StepNS = 1000
		}
		if curStepNS > 0 {
			ses.StepNS = curStepNS
		}
	}
	cmd.Env = append(cmd.Env,
		fmt.Sprintf("VERIF_SIM_STEPNS=%d", ses.StepNS),
		fmt.Sprintf("VERIF_SIM_EPOCH=%d", ses.SimEpoch),
		fmt.Sprintf("VERIF_SIM_PROCS=%d", ses.SimProcs),
		fmt.Sprintf("GOMAXPROCS=%d", maxprocs),
		"GOTRACEBACK=single",
		"GORACE=suppress_equal_stacks=0 suppress_equal_addresses=0 atexit_sleep_ms=0 halt_on_error=0 history_size=3 log_path="+logPrefix)
	var stdout, stderr bytes.Buffer
	cmd.Stdout = &stdout
	cmd.Stderr = &stderr
	t0 := time.Now()
	err := cmd.Run()
	pr := &ProcResult{Session: ses, ExitErr: err, Stderr: stderr.String(), WallS: time.Since(t0).Seconds()}
	if ctx.Err() != nil {
		pr.TimedOut = true
	}
	sc := bufio.NewScanner(&stdout)
	sc.Buffer(make([]byte, 1<<20), 1<<28)
	for sc.Scan() {
		var rec struct {
			Type string          `json:"type"`
			Data json.RawMessage `json:"data"`
		}
		if json.Unmarshal(sc.Bytes(), &rec) != nil {
			continue
		}
		switch rec.Type {
		case "summary":
			pr.Summary = &workerlib.Summary{}
			json.Unmarshal(rec.Data, pr.Summary)
		case "violation":
			v := &workerlib.Violation{}
			json.Unmarshal(rec.Data, v)
			pr.Violations = append(pr.Violations, v)
		case "sample":
			pr.Samples = append(pr.Samples, rec.Data)
		case "run":
			r := &workerlib.ExplicitRun{}
			json.Unmarshal(rec.Data, r)
			pr.Runs = append(pr.Runs, r)
		}
	}
	logs, _ := filepath.Glob(logPrefix + ".*")
	for _, l := range logs {
		if d, err := os.ReadFile(l); err == nil {
			pr.RaceLog += string(d)
		}
		os.Remove(l)
	}
	os.Remove(sesPath)
	return pr
}

// procOK checks that a worker ended the way a healthy worker does. A race
// build exits with status 66 when reports were printed; that is expected.
func procOK(pr *ProcResult) error {
	if pr.TimedOut {
		return fmt.Errorf("worker timed out (watchdog) in mode %s", pr.Session.Mode)
	}
	if pr.Summary == nil {
		return fmt.Errorf("worker died without a summary (mode %s): %v\n%s", pr.Session.Mode, pr.ExitErr, tail(pr.Stderr, 4000))
	}
	return nil
}

func tail(s string, n int) string {
	if len(s) > n {
		return "..." + s[len(s)-n:]
	}
	return s
}

// ---------------------------------------------------------------- reference

type refInfo struct {
	FreshChecked   int
	OrderDisagree  int
	FreshDisagree  int
	ExcludedInputs int
	Crashers       []string
}

// refViolation is a C05 violation found without any simulation: the reference
// evaluations of the same input disagree among themselves.
type refViolation struct {
	What  string `json:"what"`
	API   int    `json:"api"`
	Input string `json:"input_b64"`
	A     string `json:"result_a"`
	B     string `json:"result_b"`
	Idx   int    `json:"corpus_index"`
	Kind  string `json:"-"` // order | fresh
}

func refCorpus(e *Env, corpusPath, outPath string, reverse bool) ([][2]string, error) {
	args := []string{"corpus", corpusPath, outPath}
	if reverse {
		args = append(args, "reverse")
	}
	ctx, cancel := context.WithTimeout(context.Background(), 10*time.Minute)
	defer cancel()
	cmd := exec.CommandContext(ctx, e.Refeval, args...)
	if strings.Contains(corpusPath, "iso") {
		cmd.Env = append(os.Environ(), "VERIF_REF_LINGER=1")
	}
	var errb bytes.Buffer
	cmd.Stderr = &errb
	if err := cmd.Run(); err != nil {
		return nil, fmt.Errorf("reference evaluator failed: %v\n%s", err, tail(errb.String(), 3000))
	}
	data, err := os.ReadFile(outPath)
	if err != nil {
		return nil, err
	}
	var out [][2]string
	for _, line := range strings.Split(string(data), "\n") {
		if line == "" {
			continue
		}
		p := strings.Split(line, "\t")
		a, _ := common.UnB64(p[0])
		b, _ := common.UnB64(p[1])
		out = append(out, [2]string{a, b})
	}
	return out, nil
}

func refOne(e *Env, api int, in string) (string, error) {
	ctx, cancel := context.WithTimeout(context.Background(), 60*time.Second)
	defer cancel()
	// the input travels on stdin: one argv string is limited to 128 KiB
	cmd := exec.CommandContext(ctx, e.Refeval, "one", fmt.Sprint(api), "-")
	cmd.Stdin = strings.NewReader(common.B64(in))
	out, err := cmd.Output()
	if err != nil {
		if _, died := err.(*exec.ExitError); !died && ctx.Err() == nil {
			// the process could not even be started: never a verdict about the input
			harnessFail("reference evaluator could not be run: %v", err)
		}
		return "", err
	}
	return common.UnB64(strings.TrimSpace(string(out)))
}

// refList evaluates (api,input) pairs sequentially in one fresh reference process.
func refList(e *Env, calls []workerlib.ECall) ([]string, error) {
	id := atomic.AddInt64(&procSeq, 1)
	inP := filepath.Join(e.Scratch, "ses", fmt.Sprintf("l%d.in", id))
	outP := filepath.Join(e.Scratch, "ses", fmt.Sprintf("l%d.out", id))
	defer os.Remove(inP)
	defer os.Remove(outP)
	var b strings.Builder
	for _, c := range calls {
		fmt.Fprintf(&b, "%d\t%s\n", c.API, c.In)
	}
	must(os.WriteFile(inP, []byte(b.String()), 0o644))
	ctx, cancel := context.WithTimeout(context.Background(), 5*time.Minute)
	defer cancel()
	if out, err := exec.CommandContext(ctx, e.Refeval, "list", inP, outP).CombinedOutput(); err != nil {
		return nil, fmt.Errorf("%v: %s", err, tail(string(out), 2000))
	}
	data, err := os.ReadFile(outP)
	if err != nil {
		return nil, err
	}
	var res []string
	for _, line := range strings.Split(string(data), "\n") {
		if line == "" {
			continue
		}
		r, _ := common.UnB64(line)
		res = append(res, r)
	}
	if len(res) != len(calls) {
		return nil, fmt.Errorf("reference list: %d results for %d calls", len(res), len(calls))
	}
	return res, nil
}

// ---------------------------------------------------------------- parallel helper

func parallel(n, workers int, f func(i int)) {
	if workers > n {
		workers = n
	}
	if workers < 1 {
		workers = 1
	}
	var wg sync.WaitGroup
	var next int64 = -1
	for w := 0; w < workers; w++ {
		wg.Add(1)
		go func() {
			defer wg.Done()
			for {
				i := int(atomic.AddInt64(&next, 1))
				if i >= n {
					return
				}
				f(i)
			}
		}()
	}
	wg.Wait()
}

// ---------------------------------------------------------------- aggregate

// Agg accumulates the worker summaries of a whole check run.
type Agg struct {
	mu           sync.Mutex
	cur          *Check // round in progress
	Procs        int64
	ColdProcs    int64
	Runs         int64
	Calls        int64
	Steps        int64
	Switches     int64
	Faults       simrt.Faults
	OverlapRuns  int64
	NontrivRuns  int64
	HistoryPairs int64
	ColdOverlap  int64
	PanicCalls   int64
	RaceReports  int64
	SiteHits     []uint64
	InitHits     []uint32
	SyncOps      map[string]int64
	PolicyRuns   map[string]int64
	ShapeRuns    map[string]int64
	StageRuns    map[string]int64
	TasksHist    map[int]int64
	GlobalsDiff  map[string]int64
	GlobalsSame  int64
	Spawned      int64
	Leaked       int64
	PoolItemsMax int
	SimNS        int64
	Samples      []json.RawMessage
	Violations   []*foundViolation
	distinct     map[uint64]struct{}
	distinctOver bool
	hll          [1 << 14]uint8
}

type foundViolation struct {
	V     *workerlib.Violation
	Proc  *ProcResult
	Stage string
	C     *Check // the round (corpus, references) it was found in
}

func newAgg() *Agg {
	return &Agg{SyncOps: map[string]int64{}, PolicyRuns: map[string]int64{}, ShapeRuns: map[string]int64{}, StageRuns: map[string]int64{},
		TasksHist: map[int]int64{}, GlobalsDiff: map[string]int64{}, distinct: map[uint64]struct{}{}}
}

const distinctCap = 4_000_000

func (a *Agg) addDistinct(path string) {
	data, err := os.ReadFile(path)
	os.Remove(path)
	if err != nil {
		return
	}
	for i := 0; i+8 <= len(data); i += 8 {
		h := binary.LittleEndian.Uint64(data[i:])
		// HyperLogLog register update
		idx := h >> 50
		rest := h<<14 | 1<<13
		rho := uint8(1)
		for rest&(1<<63) == 0 {
			rho++
			rest <<= 1
		}
		if a.hll[idx] < rho {
			a.hll[idx] = rho
		}
		if !a.distinctOver {
			a.distinct[h] = struct{}{}
			if len(a.distinct) > distinctCap {
				a.distinctOver = true
				a.distinct = nil
			}
		}
	}
}

// Distinct returns the number of distinct non-trivial (workload, schedule)
// pairs and how it was obtained.
func (a *Agg) Distinct() (int64, string) {
	if !a.distinctOver {
		return int64(len(a.distinct)), "exact"
	}
	m := float64(len(a.hll))
	sum := 0.0
	zeros := 0
	for _, r := range a.hll {
		sum += 1.0 / float64(uint64(1)<<r)
		if r == 0 {
			zeros++
		}
	}
	est := 0.7213 / (1 + 1.079/m) * m * m / sum
	return int64(est), "hyperloglog(2^14 registers, ~0.8% error)"
}

func (a *Agg) add(stage string, pr *ProcResult) {
	a.mu.Lock()
	defer a.mu.Unlock()
	a.Procs++
	s := pr.Summary
	if s == nil {
		return
	}
	if s.Mode != "seqall" {
		a.ColdProcs++
	}
	a.Runs += s.Runs
	a.StageRuns[stage] += s.Runs
	a.Calls += s.Calls
	a.Steps += s.Steps
	a.Switches += s.Switches
	a.Faults.Add(&s.Faults)
	a.OverlapRuns += s.OverlapRuns
	a.NontrivRuns += s.NontrivRuns
	a.HistoryPairs += s.HistoryPairs
	a.ColdOverlap += s.ColdOverlap
	a.PanicCalls += s.PanicCalls
	a.RaceReports += s.RaceReports
	a.Spawned += s.Spawned
	a.Leaked += s.Leaked
	if s.PoolItems > a.PoolItemsMax {
		a.PoolItemsMax = s.PoolItems
	}
	if len(s.SiteHits) > len(a.SiteHits) {
		a.SiteHits = append(a.SiteHits, make([]uint64, len(s.SiteHits)-len(a.SiteHits))...)
	}
	for i, h := range s.SiteHits {
		a.SiteHits[i] += uint64(h)
	}
	if len(s.InitHits) > 0 {
		a.InitHits = s.InitHits
	}
	for k, v := range s.SyncOps {
		a.SyncOps[k] += v
	}
	for k, v := range s.PolicyRuns {
		a.PolicyRuns[k] += v
	}
	for k, v := range s.ShapeRuns {
		a.ShapeRuns[k] += v
	}
	for k, v := range s.TasksHist {
		a.TasksHist[k] += v
	}
	if s.Aborted == "" {
		if len(s.GlobalsDiff) == 0 && s.GlobalsBefore == s.GlobalsAfter {
			a.GlobalsSame++
		}
		for _, g := range s.GlobalsDiff {
			a.GlobalsDiff[g]++
		}
	}
	if len(a.Samples) < 6 {
		for _, sm := range pr.Samples {
			if len(a.Samples) < 6 {
				a.Samples = append(a.Samples, sm)
			}
		}
	}
	for _, v := range pr.Violations {
		a.Violations = append(a.Violations, &foundViolation{V: v, Proc: pr, Stage: stage, C: a.cur})
	}
	if pr.Session.DistinctPath != "" {
		a.addDistinct(pr.Session.DistinctPath)
	}
}

func (a *Agg) nViol() int {
	a.mu.Lock()
	defer a.mu.Unlock()
	return len(a.Violations)
}

func sortedKeys(m map[string]int64) []string {
	var k []string
	for s := range m {
		k = append(k, s)
	}
	sort.Strings(k)
	return k
}
