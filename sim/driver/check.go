package main

import (
	"fmt"
	"os"
	"path/filepath"
	"strings"
	"sync"
	"sync/atomic"
	"time"

	"verif/sim/common"
	"verif/sim/instr"
	"verif/sim/simrt"
	"verif/sim/workerlib"
)

// Check holds the state of one check run (one tier).
type Check struct {
	E         *Env
	Tier      string
	Seed      uint64
	Budget    time.Duration
	Start     time.Time
	Corpus    *common.Corpus
	CorpusP   string
	CStats    corpusStats
	Ref       refInfo
	RefViol   []*refViolation
	Agg       *Agg
	EquivN    int
	EquivBad  int
	SyncSeen  bool
	Determ    determResult
	NCPU      int
	GrowIters int
	Round     int
	Rounds    []uint64 // seeds of the further rounds (thorough)
	Novel     []string
	Grow      growStats
	Knob      knobStats
	Log       func(format string, a ...interface{})
	Timings   map[string]float64
}

type knobStats struct {
	WeakHash []instr.HashFunc `json:"narrow_hash_functions_weakened_to_3_bits"`
	Accepted []instr.Knob     `json:"shrunk_to_2_and_sequentially_equivalent"`
	Rejected []string         `json:"rejected"`
}

type growStats struct {
	Iterations int64 `json:"candidate_inputs_executed"`
	Kept       int   `json:"inputs_kept_new_edge"`
	EdgesBase  int   `json:"edges_before"`
	EdgesMax   int   `json:"edges_after_best_worker"`
	Dict       int   `json:"dictionary_strings_from_library_tables"`
}

type determResult struct {
	Sessions  int      `json:"sessions"`
	Processes int      `json:"processes"`
	MaxProcs  []int    `json:"gomaxprocs_values"`
	Equal     bool     `json:"all_equal"`
	Detail    []string `json:"detail,omitempty"`
}

func (c *Check) stage(name string, f func()) {
	t0 := time.Now()
	f()
	c.Timings[name] = time.Since(t0).Seconds()
	c.Log("stage %-14s %.1fs  (runs so far %d, violations %d)", name, c.Timings[name], c.Agg.Runs, len(c.Agg.Violations))
}

// reference builds the corpus and its reference results (DESIGN.md §3.6 O-result).
func (c *Check) reference() {
	e := c.E
	nMut := 3000
	if c.Tier == "thorough" {
		nMut = 9000
	}
	corpus, st := buildCorpus(e, c.Seed, nMut, true)
	c.CStats = st
	// pre-screen long inputs in fresh processes (a fatal stack overflow or a
	// pathological running time must not take a whole pass down)
	keep := make([]bool, corpus.Len())
	var longIdx []int
	for i, f := range corpus.Flags {
		keep[i] = true
		if f&common.FLong != 0 {
			longIdx = append(longIdx, i)
		}
	}
	parallel(len(longIdx), c.NCPU, func(k int) {
		i := longIdx[k]
		t0 := time.Now()
		for api := 0; api < 2; api++ {
			if _, err := refOne(e, api, corpus.In[i]); err != nil || time.Since(t0) > 3*time.Second {
				keep[i] = false
			}
		}
	})
	nc := &common.Corpus{}
	for i := range corpus.In {
		if keep[i] {
			nc.In = append(nc.In, corpus.In[i])
			nc.Flags = append(nc.Flags, corpus.Flags[i])
		} else {
			c.Ref.ExcludedInputs++
		}
	}
	corpus = nc
	c.Corpus = corpus
	c.CStats.Total = corpus.Len()
	c.CorpusP = filepath.Join(e.Scratch, fmt.Sprintf("corpus_%d.tsv", c.Round))
	must(corpus.Write(c.CorpusP))
	c.grow()
	corpus = c.Corpus

	var fwd, rev [][2]string
	var errF, errR error
	parallel(2, 2, func(i int) {
		if i == 0 {
			fwd, errF = refCorpus(e, c.CorpusP, filepath.Join(e.Scratch, fmt.Sprintf("ref_fwd_%d.tsv", c.Round)), false)
		} else {
			rev, errR = refCorpus(e, c.CorpusP, filepath.Join(e.Scratch, fmt.Sprintf("ref_rev_%d.tsv", c.Round)), true)
		}
	})
	if errF != nil || errR != nil {
		// the reference process died (fatal error / panic outside the caller's
		// goroutine): isolate the inputs that kill a fresh process, exclude them
		// (the worker would die on them too) and evaluate again
		crash := c.isolateCrashers(corpus)
		if len(crash) == 0 {
			// not attributable to one input (a transient failure, or a crash that
			// needs a history): one more attempt before giving up
			fwd, errF = refCorpus(e, c.CorpusP, filepath.Join(e.Scratch, fmt.Sprintf("ref_fwd_%d.tsv", c.Round)), false)
			rev, errR = refCorpus(e, c.CorpusP, filepath.Join(e.Scratch, fmt.Sprintf("ref_rev_%d.tsv", c.Round)), true)
			if errF != nil || errR != nil {
				harnessFail("reference evaluator failed but no single input crashes it: %v %v", errF, errR)
			}
		}
		if len(crash) > 0 {
			nc := &common.Corpus{}
			for i := range corpus.In {
				if crash[i] {
					c.Ref.ExcludedInputs++
					if len(c.Ref.Crashers) < 10 {
						c.Ref.Crashers = append(c.Ref.Crashers, trunc(corpus.In[i], 60))
					}
					continue
				}
				nc.In = append(nc.In, corpus.In[i])
				nc.Flags = append(nc.Flags, corpus.Flags[i])
			}
			corpus = nc
			c.Corpus = corpus
			c.CStats.Total = corpus.Len()
			must(corpus.Write(c.CorpusP))
			c.Log("excluded %d input(s) that kill the process outright (not recoverable by the caller): %q", len(crash), c.Ref.Crashers)
			fwd, errF = refCorpus(e, c.CorpusP, filepath.Join(e.Scratch, fmt.Sprintf("ref_fwd_%d.tsv", c.Round)), false)
			rev, errR = refCorpus(e, c.CorpusP, filepath.Join(e.Scratch, fmt.Sprintf("ref_rev_%d.tsv", c.Round)), true)
			if errF != nil {
				harnessFail("%v", errF)
			}
			if errR != nil {
				harnessFail("%v", errR)
			}
		}
	}
	if len(fwd) != corpus.Len() || len(rev) != corpus.Len() {
		harnessFail("reference pass returned %d/%d results for %d inputs", len(fwd), len(rev), corpus.Len())
	}
	for i := range fwd {
		for a := 0; a < 2; a++ {
			if fwd[i][a] != rev[i][a] {
				c.Ref.OrderDisagree++
				if len(c.RefViol) < 5 {
					c.RefViol = append(c.RefViol, &refViolation{What: "result differs between a forward and a reversed sequential pass over the corpus (history dependence)",
						API: a, Input: common.B64(corpus.In[i]), A: fwd[i][a], B: rev[i][a], Idx: i, Kind: "order"})
				}
			}
		}
	}
	// fresh-process reference for a sample (probes first): result as the first
	// and only library call of a process
	// Fresh-process truth: every input that the history experiments use most
	// (probes, token families, literals, fixtures) - thorough: every input - is
	// evaluated as the first and only call of its own process.
	var sample []int
	inSample := map[int]bool{}
	for i, f := range corpus.Flags {
		if f&(common.FProbe|common.FFamily|common.FLiteral|common.FFixture|common.FPadded) != 0 && f&common.FLong == 0 {
			sample = append(sample, i)
			inSample[i] = true
		}
	}
	nFresh := len(sample) + 400
	if c.Tier == "thorough" {
		nFresh = corpus.Len()
	}
	for i := 0; len(sample) < nFresh && i < corpus.Len(); i += 1 + corpus.Len()/(nFresh-len(sample)+1) {
		if !inSample[i] && corpus.Flags[i]&common.FLong == 0 {
			sample = append(sample, i)
			inSample[i] = true
		}
	}
	fresh := make([][2]string, len(sample))
	ferr := make([]error, len(sample))
	parallel(len(sample), c.NCPU, func(k int) {
		for a := 0; a < 2; a++ {
			fresh[k][a], ferr[k] = refOne(e, a, corpus.In[sample[k]])
			if ferr[k] != nil {
				return
			}
		}
	})
	for k, i := range sample {
		if ferr[k] != nil {
			harnessFail("fresh-process reference evaluation failed: %v", ferr[k])
		}
		c.Ref.FreshChecked++
		for a := 0; a < 2; a++ {
			if fresh[k][a] != fwd[i][a] {
				c.Ref.FreshDisagree++
				if len(c.RefViol) < 5 {
					c.RefViol = append(c.RefViol, &refViolation{What: "result as the first call of a fresh process differs from the result inside a sequential pass (history dependence)",
						API: a, Input: common.B64(corpus.In[i]), A: fresh[k][a], B: fwd[i][a], Idx: i, Kind: "fresh"})
				}
			}
		}
	}
	corpus.Ref[0] = make([]string, corpus.Len())
	corpus.Ref[1] = make([]string, corpus.Len())
	corpus.Steps[0] = make([]int64, corpus.Len())
	corpus.Steps[1] = make([]int64, corpus.Len())
	for i := range fwd {
		corpus.Ref[0][i] = fwd[i][0]
		corpus.Ref[1][i] = fwd[i][1]
	}
	// where a fresh-process value exists it IS the reference
	for k, i := range sample {
		corpus.Ref[0][i] = fresh[k][0]
		corpus.Ref[1][i] = fresh[k][1]
	}
	must(corpus.Write(c.CorpusP))
}

// equivalence evaluates the whole corpus sequentially in the INSTRUMENTED
// race build and requires the results of the shipped build; it also yields
// the fault-free step counts.
func (c *Check) equivalence() {
	e := c.E
	out := filepath.Join(e.Scratch, "seqall.tsv")
	ses := &workerlib.Session{Mode: "seqall", Corpus: c.CorpusP, Seed: c.Seed, SeqOut: out, NSites: len(e.Report.Sites)}
	pr := runWorker(e, ses, 1, 20*time.Minute)
	if err := procOK(pr); err != nil {
		harnessFail("equivalence stage: %v", err)
	}
	c.Agg.add("equivalence", pr)
	data, err := os.ReadFile(out)
	if err != nil {
		harnessFail("equivalence stage: %v", err)
	}
	lines := strings.Split(strings.TrimRight(string(data), "\n"), "\n")
	if len(lines) != c.Corpus.Len() {
		harnessFail("equivalence stage: %d result lines for %d inputs", len(lines), c.Corpus.Len())
	}
	var bad []string
	var badRV []*refViolation
	for i, l := range lines {
		p := strings.Split(l, "\t")
		for a := 0; a < 2; a++ {
			r, _ := common.UnB64(p[2*a])
			var st int64
			fmt.Sscan(p[2*a+1], &st)
			c.Corpus.Steps[a][i] = st
			c.EquivN++
			if r != c.Corpus.Ref[a][i] {
				c.EquivBad++
				if len(badRV) < 3 {
					badRV = append(badRV, &refViolation{What: "a single sequential caller gets a different result than a fresh process (the library's own goroutines interleave differently)", API: a,
						Input: common.B64(c.Corpus.In[i]), A: c.Corpus.Ref[a][i], B: r, Idx: i, Kind: "fresh"})
				}
				if len(bad) < 5 {
					bad = append(bad, fmt.Sprintf("api=%d input=%q instrumented=%q shipped=%q", a, trunc(c.Corpus.In[i], 80), trunc(r, 60), trunc(c.Corpus.Ref[a][i], 60)))
				}
			}
		}
	}
	for k, v := range pr.Summary.SyncOps {
		if v > 0 && k != "gosched" {
			c.SyncSeen = true
		}
	}
	if pr.Summary.RaceReports > 0 {
		sigs, _, _ := sigsOf(e, pr)
		if !sigs["race"] {
			harnessFail("the race detector reported during a single-task sequential pass and no library frame is involved: harness memory is visible to it\n%s", tail(pr.RaceLog, 4000))
		}
		c.Log("data race inside a single call (library-spawned goroutines): %d report(s)", pr.Summary.RaceReports)
	}
	if c.EquivBad > 0 {
		clockOrRand := pr.Summary.SyncOps["clock"] > 0 || pr.Summary.SyncOps["rand"] > 0
		if len(c.RefViol) > 0 {
			// the reference passes already disagree among themselves: the library is
			// history dependent, equivalence cannot be expected; go on.
			c.Log("equivalence: %d differences, but the reference passes already disagree (history dependence); continuing", c.EquivBad)
		} else if pr.Summary.Spawned > 0 && c.spawnedMismatch(badRV) {
			// the library starts goroutines of its own: one caller is already a
			// concurrent program, and the difference was reproduced as an explicit run
		} else if clockOrRand {
			// a result that follows the (simulated) clock or a random draw is not a function of the input
			for _, b := range bad {
				c.Log("clock/rand dependent result: %s", b)
			}
			c.RefViol = append(c.RefViol, &refViolation{What: "result of a single sequential pass depends on the clock or on random numbers (library reads time/rand): " + strings.Join(bad, " | ")})
		} else {
			harnessFail("instrumented build and shipped build disagree on %d of %d evaluations although nothing was scheduled or injected; the instrumentation is not behaviour-preserving for this tree:\n  %s",
				c.EquivBad, c.EquivN, strings.Join(bad, "\n  "))
		}
	}
	must(c.Corpus.Write(c.CorpusP))
}

func trunc(s string, n int) string {
	if len(s) > n {
		return s[:n] + "..."
	}
	return s
}

func (c *Check) distinctPath() string {
	return filepath.Join(c.E.Scratch, "ses", fmt.Sprintf("d%d.bin", time.Now().UnixNano()))
}

// sweepPairs: same-input pair sweep over the whole corpus.
func (c *Check) sweepPairs() {
	n := c.Corpus.Len()
	procs := c.NCPU * 2
	per := (n + procs - 1) / procs
	per = (per + 7) / 8 * 8
	parallel(procs, c.NCPU, func(i int) {
		from, to := i*per, (i+1)*per
		if to > n {
			to = n
		}
		if from >= to {
			return
		}
		ses := &workerlib.Session{Mode: "pairs", Corpus: c.CorpusP, Seed: c.Seed, Worker: i, From: from, To: to, NSites: len(c.E.Report.Sites), Samples: b2i(i == 0)}
		pr := runWorker(c.E, ses, 1, 15*time.Minute)
		if err := procOK(pr); err != nil {
			harnessFail("pair sweep: %v", err)
		}
		c.Agg.add("pair_sweep", pr)
	})
}

func b2i(b bool) int {
	if b {
		return 1
	}
	return 0
}

// sweepHist: residue x probe history sweep.
func (c *Check) sweepHist() {
	reps, probes := workerlib.HistLists(c.Corpus)
	total := len(reps) * len(probes) * 2
	if total == 0 {
		return
	}
	procs := c.NCPU * 2
	per := (total + procs - 1) / procs
	per = (per + 127) / 128 * 128
	parallel(procs, c.NCPU, func(i int) {
		from, to := i*per, (i+1)*per
		if to > total {
			to = total
		}
		if from >= to {
			return
		}
		ses := &workerlib.Session{Mode: "hist", Corpus: c.CorpusP, Seed: c.Seed, Worker: i, From: from, To: to, NSites: len(c.E.Report.Sites), DistinctPath: c.distinctPath()}
		pr := runWorker(c.E, ses, 1, 15*time.Minute)
		if err := procOK(pr); err != nil {
			harnessFail("history sweep: %v", err)
		}
		c.Agg.add("history_sweep", pr)
	})
}

// randomSearch: seeded random runs in cold worker processes.
func (c *Check) randomSearch(firstWorker, procs, runsPer int) {
	soak := 0
	if firstWorker == 0 {
		soak = 16 // long-lived soak processes ride along with the first batch
		if c.Tier == "thorough" {
			soak = 96
		}
	}
	parallel(procs+soak, c.NCPU, func(i int) {
		if i >= procs {
			n := 100000
			if c.Tier == "thorough" {
				n = 400000
			}
			ses := &workerlib.Session{Mode: "soak", Corpus: c.CorpusP, Seed: c.Seed, Worker: i - procs, Runs: n, NSites: len(c.E.Report.Sites), DistinctPath: c.distinctPath()}
			// soak workers 0-3 (the burst workers) alternate between an infinitely fast and a slow machine
			ses.StepNS = []int64{1, 1, 1, 1, 1, 1, 1, 1, 1000, 10, 100, 1000, 10, 100, 1000, 1}[(i-procs)%16]
			pr := runWorker(c.E, ses, 1, 30*time.Minute)
			if err := procOK(pr); err != nil {
				harnessFail("soak: %v", err)
			}
			c.Agg.add("soak", pr)
			return
		}
		w := firstWorker + i
		ses := &workerlib.Session{Mode: "rand", Corpus: c.CorpusP, Seed: c.Seed, Worker: w, Runs: runsPer, SyncHeavy: c.SyncSeen,
			NSites: len(c.E.Report.Sites), DistinctPath: c.distinctPath(), Samples: b2i(w < 3) * 2}
		pr := runWorker(c.E, ses, 1, 15*time.Minute)
		if err := procOK(pr); err != nil {
			harnessFail("random search (worker %d): %v", w, err)
		}
		c.Agg.add("random_search", pr)
	})
}

// determinism: the same session must produce the same schedules and results
// in different processes and under different GOMAXPROCS.
func (c *Check) determinism(sessions int, maxprocs []int, repeats int) {
	c.Determ = determResult{Sessions: sessions, MaxProcs: maxprocs, Equal: true}
	type job struct{ s, mp, rep int }
	var jobs []job
	if len(c.E.Report.AddrSites) > 0 && repeats < 2 {
		repeats = 2 // address-dependent tree: GOMAXPROCS=1 repetitions are what is compared
	}
	for s := 0; s < sessions; s++ {
		for _, mp := range maxprocs {
			for r := 0; r < repeats; r++ {
				jobs = append(jobs, job{s, mp, r})
			}
		}
	}
	hashes := make([]uint64, len(jobs))
	steps := make([]int64, len(jobs))
	parallel(len(jobs), c.NCPU, func(k int) {
		j := jobs[k]
		ses := &workerlib.Session{Mode: "rand", Corpus: c.CorpusP, Seed: c.Seed, Worker: 900000 + j.s, Runs: 120, SyncHeavy: c.SyncSeen}
		pr := runWorker(c.E, ses, j.mp, 10*time.Minute)
		if err := procOK(pr); err != nil {
			harnessFail("determinism self-test: %v", err)
		}
		hashes[k] = pr.Summary.SchedHashAll
		steps[k] = pr.Summary.Steps
		// these runs are ordinary simulated runs too: their oracle verdicts count
		c.Agg.add("determinism", pr)
	})
	c.Determ.Processes = len(jobs)
	first := map[int]int{}
	addr := len(c.E.Report.AddrSites) > 0
	for k, j := range jobs {
		if addr && j.mp != 1 {
			// the tree turns heap or stack addresses into numbers: its control flow
			// depends on where the allocator put things, and that depends on the real
			// parallelism of the process. Workers always run with GOMAXPROCS=1, where
			// allocation is a function of the session; only that is compared.
			continue
		}
		if f, ok := first[j.s]; !ok {
			first[j.s] = k
		} else if hashes[k] != hashes[f] || steps[k] != steps[f] {
			c.Determ.Equal = false
			c.Determ.Detail = append(c.Determ.Detail, fmt.Sprintf("session %d: GOMAXPROCS=%d rep=%d hash=%x steps=%d vs GOMAXPROCS=%d hash=%x steps=%d", j.s, j.mp, j.rep, hashes[k], steps[k], jobs[f].mp, hashes[f], steps[f]))
		}
	}
}

// refToSession turns a disagreement between reference evaluations into an
// explicit one-task history for the simulator: the calls that preceded the
// input in the forward (or reversed) pass, then the input, with fresh-process
// expectations. Returned nil if no window reproduces it under the simulator.
func (c *Check) refToSession(rv *refViolation) (*workerlib.Violation, []workerlib.ExplicitRun) {
	if rv.Kind == "" || c.Corpus == nil {
		return nil, nil
	}
	in := c.Corpus.In
	fresh, err := refOne(c.E, rv.API, in[rv.Idx])
	if err != nil {
		return nil, nil
	}
	// sequence of (api, idx) in pass order up to and including the failing call
	build := func(forward bool, w int) []workerlib.ECall {
		var seq []workerlib.ECall
		if forward {
			for j := rv.Idx; j >= 0 && len(seq) < w+2; j-- {
				for a := 1; a >= 0; a-- {
					if j == rv.Idx && a > rv.API {
						continue
					}
					seq = append(seq, workerlib.ECall{API: uint8(a), Idx: int32(j), In: common.B64(in[j])})
				}
			}
		} else {
			for j := rv.Idx; j < len(in) && len(seq) < w+2; j++ {
				for a := 0; a <= 1; a++ {
					if j == rv.Idx && a < rv.API {
						continue
					}
					seq = append(seq, workerlib.ECall{API: uint8(a), Idx: int32(j), In: common.B64(in[j])})
				}
			}
		}
		if len(seq) > w+1 {
			seq = seq[:w+1]
		}
		// reverse into execution order
		for i, j := 0, len(seq)-1; i < j; i, j = i+1, j-1 {
			seq[i], seq[j] = seq[j], seq[i]
		}
		return seq
	}
	for _, forward := range []bool{true, false} {
		var passVal string
		if forward {
			passVal = rv.B
			if rv.Kind == "order" {
				passVal = rv.A
			}
		} else {
			if rv.Kind != "order" {
				continue
			}
			passVal = rv.B
		}
		if passVal == fresh {
			continue
		}
		// bounded effort: a disagreement that the simulator does not reproduce within
		// the budget is still reported (as a reference-level violation, with the two
		// passes as evidence); it must not hold the whole check up
		deadline := time.Now().Add(150 * time.Second)
		try := func(calls []workerlib.ECall) (*workerlib.Violation, []workerlib.ExplicitRun) {
			run := workerlib.ExplicitRun{Tasks: [][]workerlib.ECall{calls}, Policy: simrtPolicyExplicit(), Est: 1 << 30}
			session := []workerlib.ExplicitRun{run}
			// only the last call carries an expectation (its fresh-process value);
			// an empty expectation means "not checked"
			last := &session[0].Tasks[0][len(calls)-1]
			last.Exp = common.B64(fresh)
			// one caller, fair round-robin first; if the library starts goroutines of
			// its own, how they interleave with the caller matters: try seeded policies
			tries := 2
			if c.E.Report.GoStmts > 0 {
				tries = 26
				if len(calls) > 600 {
					tries = 5 // each try simulates the whole window
				}
			}
			for k := 0; k < tries && time.Now().Before(deadline); k++ {
				if k == 1 {
					// the policy of the sequential passes: the caller runs until it blocks
					session[0].Policy = simrt.Policy{Kind: "seq", PoolMode: "lifo"}
					session[0].Seed = 1
				} else if k > 0 {
					session[0].Policy = simrt.Policy{Kind: []string{"walk", "pct", "rr"}[k%3], P: []float64{0.01, 0.05, 0.2}[(k/3)%3], Depth: 2 + k%4, Quantum: int64(1 + k%7)}
					session[0].Seed = uint64(k) * 7919
				}
				pr := runExplicit(c.E, session)
				for _, v := range pr.Violations {
					if v.Kind == "mismatch" {
						// the worker recorded the decisions it took: replay unit is explicit
						if v.Run != nil {
							session[0] = *v.Run
						}
						v.Run = &session[0]
						return v, session
					}
				}
			}
			return nil, nil
		}
		for _, w := range []int{1, 2, 4, 16, 64, -1, 256, 2048, 1 << 30} {
			var calls []workerlib.ECall
			if w < 0 {
				// a wide window is needed: shrink the whole preceding pass natively
				// first (the shipped code, at full speed), then simulate what is left
				if calls = c.nativeShrink(build(forward, 1<<30), passVal); calls == nil {
					continue
				}
			} else {
				calls = build(forward, w)
			}
			if v, ses := try(calls); v != nil {
				return v, ses
			}
			if !time.Now().Before(deadline) {
				c.Log("reference disagreement not reproduced under the simulator within the budget; reported at reference level")
				break
			}
		}
	}
	return nil, nil
}

// nativeShrink reduces a call list whose LAST call yields want in one fresh
// reference process (want differs from the fresh single-call value) by delta
// debugging on the preceding calls, evaluated by the uninstrumented library.
// nil if the full list does not yield want natively (e.g. a result that only
// shows under one pass direction's process history).
func (c *Check) nativeShrink(calls []workerlib.ECall, want string) []workerlib.ECall {
	n := len(calls)
	if n < 2 {
		return nil
	}
	holds := func(pre []workerlib.ECall) bool {
		l := append(append([]workerlib.ECall(nil), pre...), calls[n-1])
		res, err := refList(c.E, l)
		return err == nil && len(res) == len(l) && res[len(l)-1] == want
	}
	pre := calls[:n-1]
	if !holds(pre) {
		c.Log("native shrink: the %d-call pass prefix does not reproduce %q natively", n, want)
		return nil
	}
	deadline := time.Now().Add(40 * time.Second)
	for chunk := (len(pre) + 1) / 2; chunk >= 1 && time.Now().Before(deadline); {
		removed := false
		for at := 0; at < len(pre) && time.Now().Before(deadline); {
			end := at + chunk
			if end > len(pre) {
				end = len(pre)
			}
			cand := append(append([]workerlib.ECall(nil), pre[:at]...), pre[end:]...)
			if holds(cand) {
				pre, removed = cand, true
			} else {
				at = end
			}
		}
		if chunk == 1 && !removed {
			break
		}
		if chunk > 1 {
			chunk = (chunk + 1) / 2
		}
	}
	c.Log("native shrink: %d -> %d calls", n, len(pre)+1)
	return append(append([]workerlib.ECall(nil), pre...), calls[n-1])
}

// isolateCrashers finds the inputs on which a fresh reference process dies.
func (c *Check) isolateCrashers(corpus *common.Corpus) map[int]bool {
	crash := map[int]bool{}
	var mu sync.Mutex
	var rec func(idx []int, depth int)
	rec = func(idx []int, depth int) {
		if len(idx) == 0 {
			return
		}
		sub := &common.Corpus{}
		for _, i := range idx {
			sub.In = append(sub.In, corpus.In[i])
			sub.Flags = append(sub.Flags, 0)
		}
		id := atomic.AddInt64(&procSeq, 1)
		p := filepath.Join(c.E.Scratch, "ses", fmt.Sprintf("iso%d.tsv", id))
		must(sub.Write(p))
		_, err := refCorpus(c.E, p, p+".out", false)
		os.Remove(p)
		os.Remove(p + ".out")
		if err == nil {
			return
		}
		if len(idx) == 1 {
			mu.Lock()
			crash[idx[0]] = true
			mu.Unlock()
			return
		}
		parts := 8
		if len(idx) < parts {
			parts = len(idx)
		}
		per := (len(idx) + parts - 1) / parts
		var chunks [][]int
		for a := 0; a < len(idx); a += per {
			b := a + per
			if b > len(idx) {
				b = len(idx)
			}
			chunks = append(chunks, idx[a:b])
		}
		parallel(len(chunks), 8, func(k int) { rec(chunks[k], depth+1) })
	}
	all := make([]int, corpus.Len())
	for i := range all {
		all[i] = i
	}
	rec(all, 0)
	return crash
}

// grow extends the corpus by coverage-guided mutation over the instrumented
// (non-race) build of the CURRENT tree: inputs that reach yield-site edges no
// corpus input reaches. A change that adds a rarely taken branch gets inputs
// that take it. Deterministic: fixed iteration counts, seeded.
func (c *Check) grow() {
	iters := c.GrowIters
	if iters == 0 {
		iters = 150000
		if c.Tier == "thorough" {
			iters = 1500000
		}
	}
	procs := c.NCPU
	outs := make([]string, procs)
	sums := make([]*workerlib.Summary, procs)
	parallel(procs, c.NCPU, func(i int) {
		out := filepath.Join(c.E.Scratch, "ses", fmt.Sprintf("grow%d.txt", i))
		ses := &workerlib.Session{Mode: "cover", Corpus: c.CorpusP, Seed: c.Seed, Worker: i, Runs: iters, SeqOut: out, Words: novelLiterals(c.E.VerifDir, c.E.Report.StrLits)}
		to := 3 * time.Minute
		if c.Tier == "thorough" {
			to = 20 * time.Minute
		}
		pr := runWorker(c.E, ses, 4, to)
		if pr.Summary == nil {
			// the non-race build died (a fatal error on some generated input):
			// growth is best effort, the stages that decide do not depend on it
			c.Log("corpus growth worker %d died: %v %s", i, pr.ExitErr, tail(pr.Stderr, 300))
			return
		}
		outs[i] = out
		sums[i] = pr.Summary
	})
	seen := map[string]bool{}
	for _, in := range c.Corpus.In {
		seen[in] = true
	}
	for i, o := range outs {
		if o == "" {
			continue
		}
		data, err := os.ReadFile(o)
		os.Remove(o)
		if err != nil {
			continue
		}
		if s := sums[i]; s != nil {
			c.Grow.Iterations += s.Runs
			if s.CovEdges > c.Grow.EdgesMax {
				c.Grow.EdgesMax = s.CovEdges
			}
			c.Grow.EdgesBase = s.CovEdgesBase
			c.Grow.Dict = s.DictSize
		}
		for _, l := range strings.Split(string(data), "\n") {
			if l == "" {
				continue
			}
			in, err := common.UnB64(l)
			if err != nil || seen[in] {
				continue
			}
			seen[in] = true
			c.Corpus.In = append(c.Corpus.In, in)
			c.Corpus.Flags = append(c.Corpus.Flags, common.FGrown)
			c.Grow.Kept++
		}
	}
	c.CStats.Grown += c.Grow.Kept
	// token families (words from the library's own tables)
	var dict []string
	if data, err := os.ReadFile(filepath.Join(c.E.Scratch, "ses", "grow0.txt.dict")); err == nil {
		for _, l := range strings.Split(string(data), "\n") {
			if d, err := common.UnB64(l); err == nil && d != "" {
				dict = append(dict, d)
			}
		}
		os.Remove(filepath.Join(c.E.Scratch, "ses", "grow0.txt.dict"))
	}
	c.Novel = novelLiterals(c.E.VerifDir, c.E.Report.StrLits)
	c.CStats.Family = addFamilies(c.Corpus, dict, c.Seed, c.Novel)
	c.CStats.Total = c.Corpus.Len()
	must(c.Corpus.Write(c.CorpusP))
}

// sweepFamilies: token-family sweep, both API orders.
func (c *Check) sweepFamilies() {
	fams := workerlib.Families(c.Corpus)
	n := len(fams)
	if n == 0 {
		return
	}
	procs := c.NCPU * 2
	half := procs / 2
	per := (n + half - 1) / half
	parallel(procs, c.NCPU, func(i int) {
		k := i % half
		from, to := k*per, (k+1)*per
		if to > n {
			to = n
		}
		if from >= to {
			return
		}
		// worker index parity (i / half) selects which API goes first
		ses := &workerlib.Session{Mode: "family", Corpus: c.CorpusP, Seed: c.Seed &^ 1, Worker: i / half, From: from, To: to, NSites: len(c.E.Report.Sites), DistinctPath: c.distinctPath()}
		pr := runWorker(c.E, ses, 1, 15*time.Minute)
		if err := procOK(pr); err != nil {
			harnessFail("family sweep: %v", err)
		}
		c.Agg.add("family_sweep", pr)
	})
}

// smallVariant builds the knob-shrunk configuration variant and accepts it
// only if a sequential pass over the whole corpus gives exactly the reference
// results (so the shrink changes no sequential behaviour).
func (c *Check) smallVariant() bool {
	e := c.E
	knobs := e.Report.Knobs
	if len(knobs) == 0 {
		return false
	}
	try := func(ks []instr.Knob) (bool, string) {
		if err := prepareSmall(e, ks); err != nil {
			return false, err.Error()
		}
		out := filepath.Join(e.Scratch, "seqall_small.tsv")
		ses := &workerlib.Session{Mode: "seqall", Corpus: c.CorpusP, Seed: c.Seed, SeqOut: out, Variant: "small"}
		pr := runWorker(e, ses, 1, 20*time.Minute)
		if pr.Summary == nil {
			return false, "variant dies: " + tail(pr.Stderr, 300)
		}
		data, err := os.ReadFile(out)
		if err != nil {
			return false, err.Error()
		}
		lines := strings.Split(strings.TrimRight(string(data), "\n"), "\n")
		if len(lines) != c.Corpus.Len() {
			return false, "variant: wrong number of results"
		}
		for i, l := range lines {
			p := strings.Split(l, "\t")
			for a := 0; a < 2; a++ {
				r, _ := common.UnB64(p[2*a])
				if r != c.Corpus.Ref[a][i] {
					// Either the constant is not a mere capacity (a single fresh call already
					// differs: reject the variant), or the shrunk structure makes a history
					// dependence show within a few calls: that is a finding on the variant.
					curVariant = "small"
					solo := []workerlib.ExplicitRun{{Tasks: [][]workerlib.ECall{{{API: uint8(a), Idx: int32(i), In: common.B64(c.Corpus.In[i]), Exp: common.B64(c.Corpus.Ref[a][i])}}}, Policy: simrtPolicyExplicit(), Est: 1 << 30}}
					prs := runExplicit(e, solo)
					if prs.Summary != nil && len(prs.Violations) == 0 && len(ks) == len(knobs) {
						rv := &refViolation{What: "with the capacity constants shrunk to 2 a sequential pass gives a different result", API: a,
							Input: common.B64(c.Corpus.In[i]), A: c.Corpus.Ref[a][i], B: r, Idx: i, Kind: "fresh"}
						if v, session := c.refToSession(rv); v != nil {
							curVariant = ""
							prx := &ProcResult{Session: &workerlib.Session{Mode: "explicit", Explicit: session, Variant: "small"}, Violations: []*workerlib.Violation{v}}
							c.Agg.Violations = append(c.Agg.Violations, &foundViolation{V: v, Proc: prx, Stage: "small_variant", C: c})
							c.Log("capacity-shrunk variant: result of %s(%q) depends on earlier calls (%d-call history)", apiName(a), trunc(c.Corpus.In[i], 40), len(session[0].Tasks[0]))
							return false, "history dependence found on the variant (reported)"
						}
					}
					curVariant = ""
					return false, fmt.Sprintf("sequential result changes (%s(%q): %q vs %q)", apiName(a), trunc(c.Corpus.In[i], 40), r, c.Corpus.Ref[a][i])
				}
			}
		}
		if pr.Summary.RaceReports > 0 {
			return false, "variant races in a sequential pass"
		}
		return true, ""
	}
	ok, why := try(knobs)
	if ok {
		c.Knob.Accepted = knobs
		return true
	}
	c.Knob.Rejected = append(c.Knob.Rejected, fmt.Sprintf("all %d together: %s", len(knobs), why))
	if c.Agg.nViol() > 0 {
		return false
	}
	if len(knobs) == 1 {
		delete(e.Variants, "small")
		return false
	}
	// keep the knobs that are individually harmless
	var good []instr.Knob
	limit := 4
	if c.Tier == "thorough" {
		limit = 32
	}
	for i, k := range knobs {
		if i >= limit {
			break
		}
		if ok, why := try([]instr.Knob{k}); ok {
			good = append(good, k)
		} else {
			c.Knob.Rejected = append(c.Knob.Rejected, fmt.Sprintf("%s (%s:%d): %s", k.Name, k.File, k.Line, why))
		}
	}
	if len(good) == 0 {
		delete(e.Variants, "small")
		return false
	}
	if ok, why := try(good); !ok {
		c.Knob.Rejected = append(c.Knob.Rejected, "accepted knobs together: "+why)
		delete(e.Variants, "small")
		return false
	}
	c.Knob.Accepted = good
	return true
}

// searchSmall: history sweep and seeded random search on the shrunk variant.
func (c *Check) searchVariant(name string, firstWorker, procs, runsPer int) {
	reps, probes := workerlib.HistLists(c.Corpus)
	total := len(reps) * len(probes) * 2
	hp := c.NCPU
	per := (total/4 + hp - 1) / hp // a quarter of the history sweep
	per = (per + 127) / 128 * 128
	parallel(hp+procs+4, c.NCPU, func(i int) {
		var ses *workerlib.Session
		if i >= hp+procs {
			// burst workers on the variant (bursts teach adaptive structures fast)
			k := i - hp - procs
			ses = &workerlib.Session{Mode: "soak", Corpus: c.CorpusP, Seed: c.Seed, Worker: k, Runs: 20000, Variant: name, StepNS: 1, DistinctPath: c.distinctPath()}
		} else if i < hp {
			from, to := i*per, (i+1)*per
			if to > total {
				to = total
			}
			if from >= to {
				return
			}
			ses = &workerlib.Session{Mode: "hist", Corpus: c.CorpusP, Seed: c.Seed, Worker: i, From: from, To: to, Variant: name, DistinctPath: c.distinctPath()}
		} else {
			w := firstWorker + i - hp
			ses = &workerlib.Session{Mode: "rand", Corpus: c.CorpusP, Seed: c.Seed ^ 0x5a11, Worker: w, Runs: runsPer, SyncHeavy: true, Variant: name, DistinctPath: c.distinctPath()}
		}
		pr := runWorker(c.E, ses, 1, 15*time.Minute)
		if err := procOK(pr); err != nil {
			harnessFail("small-variant search: %v", err)
		}
		c.Agg.add(name+"_variant", pr)
	})
}

// sweepRepeat: repetition sweep over the probes.
func (c *Check) sweepRepeat() {
	_, probes := workerlib.HistLists(c.Corpus)
	n := len(probes)
	if n == 0 {
		return
	}
	reps := 300
	if c.Tier == "thorough" {
		reps = 5000
	}
	procs := c.NCPU * 2
	per := (n + procs - 1) / procs
	parallel(procs, c.NCPU, func(i int) {
		from, to := i*per, (i+1)*per
		if to > n {
			to = n
		}
		if from >= to {
			return
		}
		ses := &workerlib.Session{Mode: "repeat", Corpus: c.CorpusP, Seed: c.Seed, Worker: i, From: from, To: to, Runs: reps, NSites: len(c.E.Report.Sites), DistinctPath: c.distinctPath()}
		pr := runWorker(c.E, ses, 1, 15*time.Minute)
		if err := procOK(pr); err != nil {
			harnessFail("repetition sweep: %v", err)
		}
		c.Agg.add("repeat_sweep", pr)
	})
}

// sweepLongPairs: every ordered pair of long inputs as a two-call history.
func (c *Check) sweepLongPairs() {
	L := len(workerlib.LongList(c.Corpus))
	total := L * L * 2
	if total == 0 {
		return
	}
	procs := c.NCPU * 2
	per := (total + procs - 1) / procs
	parallel(procs, c.NCPU, func(i int) {
		from, to := i*per, (i+1)*per
		if to > total {
			to = total
		}
		if from >= to {
			return
		}
		// quick: about 2000 of the ordered pairs (an odd stride: both APIs and all
		// first members still occur); thorough: every third pair per round
		stride := total/2000 | 1
		if stride < 3 {
			stride = 3
		}
		if c.Tier == "thorough" {
			stride = 3
		}
		ses := &workerlib.Session{Mode: "longpairs", Corpus: c.CorpusP, Seed: c.Seed, Worker: i, From: from, To: to, Runs: stride, SyncHeavy: c.SyncSeen, NSites: len(c.E.Report.Sites), DistinctPath: c.distinctPath()}
		pr := runWorker(c.E, ses, 1, 15*time.Minute)
		if err := procOK(pr); err != nil {
			harnessFail("long-pair sweep: %v", err)
		}
		c.Agg.add("long_pair_sweep", pr)
	})
}

// weakHashVariant: narrow (<=32-bit) hash functions are weakened to 3 bits.
// If a sequential pass over the corpus then gives different results, the
// library identifies keys by their hash alone: colliding keys exist for any
// fixed-width hash, so results depend on which keys were seen before. The
// difference is turned into an explicit history on the variant.
func (c *Check) weakHashVariant() (equivalent bool) {
	e := c.E
	hs := e.Report.HashFuncs
	if len(hs) == 0 {
		return false
	}
	if err := prepareVariant(e, "weakhash", nil, hs, 3); err != nil {
		c.Knob.Rejected = append(c.Knob.Rejected, "weakhash: "+err.Error())
		return false
	}
	out := filepath.Join(e.Scratch, "seqall_weak.tsv")
	ses := &workerlib.Session{Mode: "seqall", Corpus: c.CorpusP, Seed: c.Seed, SeqOut: out, Variant: "weakhash"}
	// a weakened hash may degrade a hash table into a list: bound the time this variant may cost
	guard := 4*time.Duration(c.Timings["equivalence"]*float64(time.Second)) + 20*time.Second
	pr := runWorker(e, ses, 1, guard)
	if pr.TimedOut {
		c.Knob.Rejected = append(c.Knob.Rejected, "weakhash: the variant is too slow to be useful (weakened hash degrades a table); dropped")
		delete(e.Variants, "weakhash")
		return false
	}
	if pr.Summary == nil {
		c.Knob.Rejected = append(c.Knob.Rejected, "weakhash: variant dies: "+tail(pr.Stderr, 200))
		delete(e.Variants, "weakhash")
		return false
	}
	data, err := os.ReadFile(out)
	if err != nil {
		return false
	}
	lines := strings.Split(strings.TrimRight(string(data), "\n"), "\n")
	if len(lines) != c.Corpus.Len() {
		return false
	}
	c.Knob.WeakHash = hs
	for i, l := range lines {
		p := strings.Split(l, "\t")
		for a := 0; a < 2; a++ {
			r, _ := common.UnB64(p[2*a])
			if r != c.Corpus.Ref[a][i] {
				// history dependence through hash identity: rebuild it as a simulated history on the variant
				rv := &refViolation{What: "with the narrow hash function(s) weakened to 3 bits a sequential pass gives a different result", API: a,
					Input: common.B64(c.Corpus.In[i]), A: c.Corpus.Ref[a][i], B: r, Idx: i, Kind: "fresh"}
				curVariant = "weakhash"
				// guard: the weakening itself must not change what the function computes
				// for a single call in a fresh process; if it does, these functions are
				// not mere key hashes and the variant says nothing about the shipped code
				solo := []workerlib.ExplicitRun{{Tasks: [][]workerlib.ECall{{{API: uint8(a), Idx: int32(i), In: common.B64(c.Corpus.In[i]), Exp: common.B64(c.Corpus.Ref[a][i])}}}, Policy: simrtPolicyExplicit(), Est: 1 << 30}}
				if prs := runExplicit(e, solo); prs.Summary == nil || len(prs.Violations) > 0 {
					curVariant = ""
					c.Knob.Rejected = append(c.Knob.Rejected, fmt.Sprintf("weakhash: weakening changes the result of a single fresh call (%s(%q)): not a key hash; variant dropped", apiName(a), trunc(c.Corpus.In[i], 40)))
					c.Knob.WeakHash = nil
					delete(e.Variants, "weakhash")
					return false
				}
				v, session := c.refToSession(rv)
				curVariant = ""
				if v != nil {
					prx := &ProcResult{Session: &workerlib.Session{Mode: "explicit", Explicit: session, Variant: "weakhash"}, Violations: []*workerlib.Violation{v}}
					c.Agg.Violations = append(c.Agg.Violations, &foundViolation{V: v, Proc: prx, Stage: "weak_hash_variant", C: c})
					c.Log("weak-hash variant: result of %s(%q) depends on earlier calls (%d-call history)", apiName(a), trunc(c.Corpus.In[i], 40), len(session[0].Tasks[0]))
					return false
				}
			}
		}
	}
	return true
}

// sweepSolo: when the library starts goroutines of its own, a single call is
// already a concurrent program: every input of 500 bytes or more is asked
// alone, on each API, under several seeded policies.
func (c *Check) sweepSolo() {
	var idx []int32
	for i, in := range c.Corpus.In {
		if len(in) >= 500 {
			idx = append(idx, int32(i))
		}
	}
	const perInput = 12 // 2 APIs x 6 policies
	total := len(idx) * perInput
	if total == 0 {
		return
	}
	procs := c.NCPU * 2
	per := (total + procs - 1) / procs
	parallel(procs, c.NCPU, func(i int) {
		from, to := i*per, (i+1)*per
		if to > total {
			to = total
		}
		if from >= to {
			return
		}
		ses := &workerlib.Session{Mode: "solo", Corpus: c.CorpusP, Seed: c.Seed, Worker: i, From: from, To: to, SyncHeavy: true, NSites: len(c.E.Report.Sites), DistinctPath: c.distinctPath()}
		pr := runWorker(c.E, ses, 1, 15*time.Minute)
		if err := procOK(pr); err != nil {
			harnessFail("solo sweep: %v", err)
		}
		c.Agg.add("solo_sweep", pr)
	})
}

// sweepColdFirst: one fresh process per (first input, API): the input is the
// first library call of the process, then a fixed list of probes follows on
// both APIs. First inputs: everything on which the tree panics, long inputs,
// and a seeded sample of mutated / family / literal / grown inputs (sessions
// are explicit, so a process does not load the corpus and costs ~10 ms).
func (c *Check) sweepColdFirst() {
	list := workerlib.ColdFirstList(c.Corpus)
	seen := map[int32]bool{}
	for _, i := range list {
		seen[i] = true
	}
	var pool []int32
	for i, f := range c.Corpus.Flags {
		if f&(common.FMutated|common.FFamily|common.FLiteral|common.FFixture|common.FGrown) != 0 && f&(common.FLong|common.FPadded) == 0 && len(c.Corpus.In[i]) <= 200 {
			pool = append(pool, int32(i))
		}
	}
	n := 90
	if c.Tier == "thorough" {
		n = 2500
	}
	r := simrt.NewRNG(c.Seed ^ 0xc01d)
	for k := 0; k < n && len(pool) > 0; k++ {
		i := pool[r.Intn(len(pool))]
		if !seen[i] {
			seen[i] = true
			list = append(list, i)
		}
	}
	_, probes := workerlib.HistLists(c.Corpus)
	if len(probes) > 48 {
		// a fixed spread of probes keeps each process short
		var sub []int32
		for k := 0; k < len(probes); k += len(probes)/48 + 1 {
			sub = append(sub, probes[k])
		}
		probes = sub
	}
	mk := func(api uint8, i int32) workerlib.ECall {
		return workerlib.ECall{API: api, Idx: i, In: common.B64(c.Corpus.In[i]), Exp: common.B64(c.Corpus.Ref[api][i])}
	}
	total := len(list) * 2
	parallel(total, c.NCPU, func(k int) {
		x := list[k/2]
		api := uint8(k & 1)
		calls := []workerlib.ECall{mk(api, x)}
		for _, a := range []uint8{api, 1 - api} {
			for _, p := range probes {
				calls = append(calls, mk(a, p))
			}
		}
		run := workerlib.ExplicitRun{Tasks: [][]workerlib.ECall{calls}, Policy: simrt.Policy{Kind: "seq", PoolMode: "lifo"}, Seed: uint64(k), Est: 1 << 24}
		ses := &workerlib.Session{Mode: "explicit", Explicit: []workerlib.ExplicitRun{run}, Worker: k}
		pr := runWorker(c.E, ses, 1, 5*time.Minute)
		if err := procOK(pr); err != nil {
			harnessFail("cold-first sweep: %v", err)
		}
		c.Agg.add("cold_first_sweep", pr)
	})
}

// sweepChains: long single-caller chains over all medium-sized inputs.
func (c *Check) sweepChains() {
	procs := 12
	if c.Tier == "thorough" {
		procs = 32
	}
	parallel(procs, c.NCPU, func(i int) {
		ses := &workerlib.Session{Mode: "chain", Corpus: c.CorpusP, Seed: c.Seed, Worker: i, To: 1 << 30, SyncHeavy: c.SyncSeen, NSites: len(c.E.Report.Sites), DistinctPath: c.distinctPath()}
		pr := runWorker(c.E, ses, 1, 15*time.Minute)
		if err := procOK(pr); err != nil {
			harnessFail("chain sweep: %v", err)
		}
		c.Agg.add("chain_sweep", pr)
	})
}

// spawnedMismatch: the sequential pass of a library that spawns goroutines
// differs from the fresh-process reference. Reproduce one difference as an
// explicit simulated run (history window + seeded policies); true if a
// violation was recorded.
func (c *Check) spawnedMismatch(rvs []*refViolation) bool {
	for k, rv := range rvs {
		if k >= 3 {
			break
		}
		if v, session := c.refToSession(rv); v != nil {
			pr := &ProcResult{Session: &workerlib.Session{Mode: "explicit", Explicit: session}, Violations: []*workerlib.Violation{v}}
			c.Agg.Violations = append(c.Agg.Violations, &foundViolation{V: v, Proc: pr, Stage: "equivalence", C: c})
			c.Log("single-caller pass differs from the fresh-process reference; reproduced as a %d-call run with library goroutines", len(session[0].Tasks[0]))
			return true
		}
	}
	return false
}

// sweepHugeFirst: one process per (huge input, API): the huge call first, then concurrent ordinary calls.
func (c *Check) sweepHugeFirst() {
	n := len(workerlib.HugeList(c.Corpus)) * 2
	parallel(n, c.NCPU, func(i int) {
		ses := &workerlib.Session{Mode: "hugefirst", Corpus: c.CorpusP, Seed: c.Seed, Worker: i, From: i / 2, Runs: i & 1, NSites: len(c.E.Report.Sites), DistinctPath: c.distinctPath()}
		pr := runWorker(c.E, ses, 1, 15*time.Minute)
		if err := procOK(pr); err != nil {
			harnessFail("huge-first sweep: %v", err)
		}
		c.Agg.add("huge_first_sweep", pr)
	})
}

// sweepWrap: exact-distance histories (see modeWrap). 8-bit periods: every
// pair; 16-bit periods (131 k calls per pair): a seeded handful per API.
func (c *Check) sweepWrap() {
	type job struct{ period, api, from, to int }
	var jobs []job
	for api := 0; api < 2; api++ {
		a, _ := workerlib.WrapPairs(c.Corpus, uint8(api))
		np := len(a)
		if np == 0 {
			continue
		}
		for p, n := range workerlib.WrapPeriods {
			if n < 1000 {
				for from := 0; from < np; from += 60 {
					jobs = append(jobs, job{p, api, from, from + 60})
				}
				continue
			}
			q := 4
			if c.Tier == "thorough" {
				q = 24
			}
			r := simrt.NewRNG(c.Seed ^ uint64(0x3a9+p*2+api))
			for k := 0; k < q; k++ {
				i := r.Intn(np)
				jobs = append(jobs, job{p, api, i, i + 1})
			}
		}
	}
	parallel(len(jobs), c.NCPU, func(i int) {
		j := jobs[i]
		ses := &workerlib.Session{Mode: "wrap", Corpus: c.CorpusP, Seed: c.Seed, Worker: i, From: j.from, To: j.to, Runs: j.period<<1 | j.api, NSites: len(c.E.Report.Sites), DistinctPath: c.distinctPath()}
		pr := runWorker(c.E, ses, 1, 15*time.Minute)
		if err := procOK(pr); err != nil {
			harnessFail("wrap sweep: %v", err)
		}
		c.Agg.add("wrap_sweep", pr)
	})
}

// sweepOverlap: self-overlap sweep (see modeOverlap); only for trees that reach synchronisation stubs.
func (c *Check) sweepOverlap() {
	total := 2 * len(workerlib.OverlapList(c.Corpus))
	procs := c.NCPU * 2
	per := (total + procs - 1) / procs
	parallel(procs, c.NCPU, func(i int) {
		from, to := i*per, (i+1)*per
		if to > total {
			to = total
		}
		if from >= to {
			return
		}
		ses := &workerlib.Session{Mode: "overlap", Corpus: c.CorpusP, Seed: c.Seed, Worker: i, From: from, To: to, SyncHeavy: true, NSites: len(c.E.Report.Sites), DistinctPath: c.distinctPath()}
		pr := runWorker(c.E, ses, 1, 15*time.Minute)
		if err := procOK(pr); err != nil {
			harnessFail("overlap sweep: %v", err)
		}
		c.Agg.add("overlap_sweep", pr)
	})
}

// sweepStall: long-stall sweep (see modeStall); only for trees that reach synchronisation stubs.
func (c *Check) sweepStall() {
	per := 2 // (X, API) items per process
	procs := c.NCPU * 2
	if c.Tier == "thorough" {
		per = 6
	}
	parallel(procs, c.NCPU, func(i int) {
		ses := &workerlib.Session{Mode: "stall", Corpus: c.CorpusP, Seed: c.Seed, Worker: i, From: i * per, To: (i + 1) * per, SyncHeavy: true, NSites: len(c.E.Report.Sites), DistinctPath: c.distinctPath()}
		pr := runWorker(c.E, ses, 1, 15*time.Minute)
		if err := procOK(pr); err != nil {
			harnessFail("stall sweep: %v", err)
		}
		c.Agg.add("stall_sweep", pr)
	})
}

// sweepRetain: retention sweep (see modeRetain): fresh processes, both APIs, four variants.
func (c *Check) sweepRetain() {
	parallel(8, c.NCPU, func(i int) {
		ses := &workerlib.Session{Mode: "retain", Corpus: c.CorpusP, Seed: c.Seed, Worker: i, From: i & 1, Runs: i >> 1, NSites: len(c.E.Report.Sites), DistinctPath: c.distinctPath()}
		pr := runWorker(c.E, ses, 1, 15*time.Minute)
		if err := procOK(pr); err != nil {
			harnessFail("retention sweep: %v", err)
		}
		c.Agg.add("retention_sweep", pr)
	})
}

// sweepColdBurst: one fresh process per (burst candidate, API); variant "" or a configuration variant.
func (c *Check) sweepColdBurst(variant string, perAPI int) {
	var jobs [][2]int
	for api := 0; api < 2; api++ {
		n := len(workerlib.BurstCandidates(c.Corpus, uint8(api)))
		if n == 0 {
			continue
		}
		r := simrt.NewRNG(c.Seed ^ uint64(0xb0457+api))
		seen := map[int]bool{}
		for k := 0; k < perAPI && len(seen) < n; k++ {
			i := r.Intn(n)
			if perAPI >= n {
				i = k
			}
			if !seen[i] {
				seen[i] = true
				jobs = append(jobs, [2]int{i, api})
			}
		}
	}
	parallel(len(jobs), c.NCPU, func(k int) {
		ses := &workerlib.Session{Mode: "coldburst", Corpus: c.CorpusP, Seed: c.Seed, Worker: k, From: jobs[k][0], Runs: jobs[k][1], Variant: variant, StepNS: 1, DistinctPath: c.distinctPath()}
		pr := runWorker(c.E, ses, 1, 10*time.Minute)
		if err := procOK(pr); err != nil {
			harnessFail("cold-burst sweep: %v", err)
		}
		c.Agg.add("cold_burst_sweep"+variant, pr)
	})
}
