// Command driver is the C05 check: deterministic simulation of concurrent
// callers of the library under a seeded scheduler with fault injection
// (DESIGN.md §3). Exit status: 0 = property held on everything explored,
// 1 = violation (a line "VIOLATION property=C05 replay=<path>" is printed),
// 2 = the machinery could not decide (build trouble, watchdog, refusal).
package main

import (
	"encoding/json"
	"fmt"
	"os"
	"os/signal"
	"path/filepath"
	"runtime"
	"sort"
	"strconv"
	"strings"
	"syscall"
	"time"

	"verif/sim/workerlib"
)

func usage() {
	fmt.Fprintln(os.Stderr, `usage:
  driver C05 quick|thorough          run the check (env VERIF_SEED, VERIF_BUDGET_S)
  driver C05 --replay <file>         replay a violation against the current /repo tree
  driver selftest [names...]         apply catalogued mutants/controls to scratch copies and assert detected/silent
  driver instrument <src> <dst>      (debug) instrument a tree`)
	os.Exit(2)
}

func envOr(k, d string) string {
	if v := os.Getenv(k); v != "" {
		return v
	}
	return d
}

func main() {
	if len(os.Args) < 2 {
		usage()
	}
	sig := make(chan os.Signal, 1)
	signal.Notify(sig, syscall.SIGINT, syscall.SIGTERM)
	go func() {
		<-sig
		cleanupScratch()
		os.Exit(2)
	}()
	verifDir := envOr("VERIF_DIR", "/verif")
	repoDir := envOr("VERIF_REPO", "/repo")
	switch os.Args[1] {
	case "C05":
		if len(os.Args) < 3 {
			usage()
		}
		if os.Args[2] == "--replay" {
			if len(os.Args) < 4 {
				usage()
			}
			code := replayCmd(verifDir, repoDir, os.Args[3])
			cleanupScratch()
			os.Exit(code)
		}
		tier := os.Args[2]
		if t := os.Getenv("VERIF_TIER"); t != "" && (t == "quick" || t == "thorough") && tier == "" {
			tier = t
		}
		if tier != "quick" && tier != "thorough" {
			usage()
		}
		code := checkCmd(verifDir, repoDir, tier)
		cleanupScratch()
		os.Exit(code)
	case "selftest":
		code := selftestCmd(verifDir, repoDir, os.Args[2:])
		cleanupScratch()
		os.Exit(code)
	case "instrument":
		e := prepare(verifDir, os.Args[2])
		fmt.Println("scratch:", e.Scratch)
		b, _ := json.MarshalIndent(e.Report, "", " ")
		fmt.Println(string(b))
	default:
		usage()
	}
}

func parseSeed() uint64 {
	s := os.Getenv("VERIF_SEED")
	if s == "" {
		return 20261002
	}
	if v, err := strconv.ParseUint(s, 0, 64); err == nil {
		return v
	}
	if v, err := strconv.ParseInt(s, 0, 64); err == nil {
		return uint64(v)
	}
	return hashStr(s)
}

func checkCmd(verifDir, repoDir, tier string) int {
	seed := parseSeed()
	logf := func(format string, a ...interface{}) {
		fmt.Printf("[C05 %s +%5.1fs] "+format+"\n", append([]interface{}{tier, time.Since(startT).Seconds()}, a...)...)
	}
	startT = time.Now()
	fmt.Printf("C05 %s: VERIF_SEED=%d repo=%s\n", tier, seed, repoDir)
	e := prepare(verifDir, repoDir)
	logf("built worker (race, instrumented: %d yield sites, %d files) and reference evaluator in %.1fs; tree digest %s", len(e.Report.Sites), len(e.Report.Files), e.BuildS, e.TreeDig)
	c := &Check{E: e, Tier: tier, Seed: seed, Start: startT, Agg: newAgg(), NCPU: runtime.NumCPU(), Log: logf, Timings: map[string]float64{}}
	budget := 20 * 60
	if tier == "quick" {
		budget = 0
	}
	if b := os.Getenv("VERIF_BUDGET_S"); b != "" {
		if v, err := strconv.Atoi(b); err == nil {
			budget = v
		}
	}
	c.Budget = time.Duration(budget) * time.Second
	res := c.runAll()
	writeEvidence(c, res)
	return res.Exit
}

var startT time.Time

type checkResult struct {
	Exit       int
	Violations int
	Known      int
	Replays    []string
	Lines      []string
}

func (c *Check) runAll() *checkResult {
	e := c.E
	res := &checkResult{}
	c.stage("reference", c.reference)
	c.Log("corpus: %d inputs (%d fixtures, %d literals, %d residues, %d probes, %d mutated, %d long, %d residue reps, %d grown by coverage, %d token-family members); fresh-process checked %d; excluded %d",
		c.CStats.Total, c.CStats.Fixtures, c.CStats.Literals, c.CStats.Residues, c.CStats.Probes, c.CStats.Mutated, c.CStats.Long, c.CStats.Reps, c.CStats.Grown, c.CStats.Family, c.Ref.FreshChecked, c.Ref.ExcludedInputs)
	c.stage("equivalence", c.equivalence)
	c.Log("instrumented == shipped on %d evaluations; sync stubs reached: %v", c.EquivN-c.EquivBad, c.SyncSeen)

	enough := func() bool { return c.Agg.nViol() >= 1 || len(c.RefViol) > 0 }
	if !enough() {
		c.stage("pair_sweep", c.sweepPairs)
	}
	if !enough() {
		c.stage("history_sweep", c.sweepHist)
	}
	if !enough() {
		c.stage("family_sweep", c.sweepFamilies)
	}
	small := false
	if !enough() && len(e.Report.Knobs) > 0 {
		c.stage("small_variant_build", func() { small = c.smallVariant() })
		c.Log("capacity knobs: %d found, %d shrunk to 2 in a variant build whose sequential results equal the reference; rejected: %v", len(e.Report.Knobs), len(c.Knob.Accepted), c.Knob.Rejected)
	}
	if !enough() {
		if c.Tier == "quick" {
			c.stage("random_search", func() { c.randomSearch(0, 64, 250) })
			if small && !enough() {
				c.stage("small_variant", func() { c.searchSmall(500000, 32, 250) })
			}
			if !enough() {
				c.stage("determinism", func() { c.determinism(2, []int{1, 16}, 1) })
			}
		} else {
			c.stage("determinism", func() { c.determinism(4, []int{1, 4, 16}, 3) })
			c.stage("random_search", func() {
				w := 0
				for time.Since(c.Start) < c.Budget && !enough() {
					n := c.NCPU * 4
					c.randomSearch(w, n, 200)
					w += n
					if small && !enough() {
						c.searchSmall(500000+w, n/2, 200)
					}
					c.Log("  random search: %d cold processes, %d runs, %d steps so far", c.Agg.ColdProcs, c.Agg.Runs, c.Agg.Steps)
				}
			})
		}
	}
	if !c.Determ.Equal && c.Determ.Processes > 0 && len(c.Agg.Violations) == 0 && len(c.RefViol) == 0 {
		if len(e.Report.MapRangeSites) == 0 && len(e.Report.Unmodelled) == 0 {
			harnessFail("determinism self-test failed although no violation was found and the tree has no unmodelled nondeterminism:\n  %s", strings.Join(c.Determ.Detail, "\n  "))
		}
		c.Log("WARNING: schedules are not reproducible across processes; the tree has map-range / unmodelled sites: %v %v", e.Report.MapRangeSites, e.Report.Unmodelled)
	}

	known := loadKnown(filepath.Join(e.VerifDir, "known_findings.txt"))
	// reference-level violations (no simulation needed to see them); where the
	// simulator reproduces the history, the ordinary minimised replay is produced
	for _, rv := range c.RefViol {
		if v, session := c.refToSession(rv); v != nil {
			pr := &ProcResult{Session: &workerlib.Session{Mode: "explicit", Explicit: session}, Violations: []*workerlib.Violation{v}}
			c.Agg.Violations = append(c.Agg.Violations, &foundViolation{V: v, Proc: pr, Stage: "reference"})
			c.Log("reference disagreement reproduced under the simulator as a %d-call history", len(session[0].Tasks[0]))
			break
		}
		rp := &Replay{Property: "C05", Kind: "reference-disagreement", Signature: "refdisagree", Summary: rv.What, Seed: c.Seed, TreeDigest: e.TreeDig,
			SiteDigest: e.Report.SiteDigest, Ref: rv, HowTo: "cd /verif && ./run C05 --replay <this file>"}
		in, _ := unb64(rv.Input)
		rp.Readable = []string{fmt.Sprintf("%s(%q): %q vs %q", apiName(rv.API), trunc(in, 200), rv.A, rv.B)}
		p := writeReplay(e, rp)
		res.Lines = append(res.Lines, fmt.Sprintf("VIOLATION property=C05 replay=%s", p))
		res.Replays = append(res.Replays, p)
		res.Violations++
		break
	}
	// simulated violations: one replay per distinct signature (at most 3)
	if len(c.Agg.Violations) > 0 {
		// harness-only race reports are a harness defect
		for _, fv := range c.Agg.Violations {
			if fv.V.Kind == "race" {
				_, _, harnessOnly := sigsOf(e, fv.Proc)
				sg, _, _ := sigsOf(e, fv.Proc)
				if harnessOnly && !sg["race"] {
					harnessFail("race report whose stacks lie wholly inside the harness:\n%s", tail(fv.Proc.RaceLog, 6000))
				}
			}
		}
		sort.SliceStable(c.Agg.Violations, func(i, j int) bool {
			a, b := c.Agg.Violations[i], c.Agg.Violations[j]
			_, _, ca, _, ba := sessionSize([]workerlib.ExplicitRun{*a.V.Run})
			_, _, cb, _, bb := sessionSize([]workerlib.ExplicitRun{*b.V.Run})
			if ca != cb {
				return ca < cb
			}
			return ba < bb
		})
		done := map[string]bool{}
		limit := 90 * time.Second
		if c.Tier == "thorough" {
			limit = 5 * time.Minute
		}
		unrepro := 0
		for _, fv := range c.Agg.Violations {
			pre := violSig(fv.V)
			if done[pre] || len(done) >= 3 {
				continue
			}
			t0 := time.Now()
			p, sig := processViolation(e, c, fv, limit)
			if p == "" {
				unrepro++
				c.Log("a %s violation (run seed %d, stage %s) did not reproduce from its explicit trace", fv.V.Kind, fv.V.Seed, fv.Stage)
				continue
			}
			done[pre] = true
			done[sig] = true
			c.Log("violation %s minimised and confirmed in %.1fs -> %s", sig, time.Since(t0).Seconds(), p)
			if k := known.match(sig, p); k != "" {
				res.Lines = append(res.Lines, fmt.Sprintf("KNOWN-FINDING: property=C05 %s", k))
				res.Known++
				continue
			}
			res.Lines = append(res.Lines, fmt.Sprintf("VIOLATION property=C05 replay=%s", p))
			res.Replays = append(res.Replays, p)
			res.Violations++
		}
		if res.Violations == 0 && res.Known == 0 && unrepro > 0 {
			// observed but not reproducible: report the observation itself, unminimised
			fv := c.Agg.Violations[0]
			rp := &Replay{Property: "C05", Kind: fv.V.Kind, Signature: violSig(fv.V), Seed: c.Seed, RunSeed: fv.V.Seed, Stage: fv.Stage, TreeDigest: e.TreeDig,
				SiteDigest: e.Report.SiteDigest, Session: []workerlib.ExplicitRun{*fv.V.Run}, Violation: fv.V, RaceReport: tail(fv.Proc.RaceLog, 8000),
				Summary:  "observed once; replaying the recorded decisions did not reproduce it (the tree contains nondeterminism outside the simulator's seams): " + fv.V.Detail,
				Readable: readable([]workerlib.ExplicitRun{*fv.V.Run}), HowTo: "cd /verif && ./run C05 --replay <this file>"}
			if len(e.Report.MapRangeSites) == 0 && len(e.Report.Unmodelled) == 0 && fv.V.Kind != "race" {
				harnessFail("violation (%s, run seed %d) does not reproduce from its trace and the tree has no unmodelled nondeterminism: harness determinism bug\n%s", fv.V.Kind, fv.V.Seed, fv.V.Detail)
			}
			p := writeReplay(e, rp)
			res.Lines = append(res.Lines, fmt.Sprintf("VIOLATION property=C05 replay=%s", p))
			res.Replays = append(res.Replays, p)
			res.Violations++
		}
	}
	for _, l := range res.Lines {
		fmt.Println(l)
	}
	if res.Violations > 0 {
		res.Exit = 1
	} else {
		fmt.Printf("C05 %s: no violation in %d runs / %d simulated steps (%d cold processes)\n", c.Tier, c.Agg.Runs, c.Agg.Steps, c.Agg.ColdProcs)
	}
	return res
}

// ---------------------------------------------------------------- known findings

type knownSet struct{ entries []knownEntry }
type knownEntry struct {
	sig, input, text string
}

// known_findings.txt lines:
//
//	known: property=C05 signature=<sig> [input=<base64>] <free text>
//	fixed: property=C05 <commit> <what failed>        (suppresses nothing)
func loadKnown(path string) *knownSet {
	ks := &knownSet{}
	data, err := os.ReadFile(path)
	if err != nil {
		return ks
	}
	for _, line := range strings.Split(string(data), "\n") {
		line = strings.TrimSpace(line)
		if !strings.HasPrefix(line, "known:") || !strings.Contains(line, "property=C05") {
			continue
		}
		ke := knownEntry{text: strings.TrimSpace(strings.TrimPrefix(line, "known:"))}
		for _, f := range strings.Fields(line) {
			if strings.HasPrefix(f, "signature=") {
				ke.sig = strings.TrimPrefix(f, "signature=")
			}
			if strings.HasPrefix(f, "input=") {
				ke.input = strings.TrimPrefix(f, "input=")
			}
		}
		if ke.sig != "" {
			ks.entries = append(ks.entries, ke)
		}
	}
	return ks
}

func (k *knownSet) match(sig, replayPath string) string {
	for _, e := range k.entries {
		if e.sig != sig {
			continue
		}
		if e.input != "" {
			data, _ := os.ReadFile(replayPath)
			if !strings.Contains(string(data), `"`+e.input+`"`) {
				continue
			}
		}
		return strings.TrimPrefix(e.text, "property=C05 ")
	}
	return ""
}

func unb64(s string) (string, error) {
	return commonUnB64(s)
}
