package main

import (
	"encoding/json"
	"fmt"
	"os"
	"path/filepath"
	"time"

	"verif/sim/common"
)

func commonUnB64(s string) (string, error) { return common.UnB64(s) }

func writeEvidence(c *Check, res *checkResult) {
	e := c.E
	a := c.Agg
	wall := time.Since(c.Start).Seconds()
	distinct, how := a.Distinct()
	sitesHit, initOnly := 0, 0
	never := []string{}
	for _, s := range e.Report.Sites {
		switch {
		case s.ID < len(a.SiteHits) && a.SiteHits[s.ID] > 0:
			sitesHit++
		case s.ID < len(a.InitHits) && a.InitHits[s.ID] > 0:
			initOnly++ // executed by package initialisation only: no caller can reach it
		case len(never) < 60:
			never = append(never, fmt.Sprintf("%s:%d %s(%s)", s.File, s.Line, s.Func, s.Kind))
		}
	}
	samples := []interface{}{}
	for _, s := range a.Samples {
		var v interface{}
		json.Unmarshal(s, &v)
		samples = append(samples, v)
	}
	if len(samples) == 0 {
		samples = append(samples, map[string]interface{}{"note": "no sample run was small enough to print; see coverage counters"})
	}
	hours := wall / 3600
	if hours <= 0 {
		hours = 1e-9
	}
	globalsChanged := map[string]int64{}
	for k, v := range a.GlobalsDiff {
		globalsChanged[k] = v
	}
	cov := map[string]interface{}{
		"evaluations":         a.Runs,
		"distinct_nontrivial": distinct,
		"rule": "One evaluation = one simulated run: 1-8 caller tasks x 1-8 IsSQLi/IsXSS calls on corpus inputs, executed by the real library code (instrumented scratch copy of /repo's working tree, -race) under the seeded scheduler; every call's result is compared with the reference result of the same input from an uninstrumented build, the race detector is read after every run, deadlock and non-return are checked. " +
			"A run is non-trivial if two calls of different tasks overlapped with at least one preemption inside an in-flight call, or if one task issued >=2 calls (a history). distinct_nontrivial counts distinct (workload hash, schedule hash) pairs among those runs, " + how + ".",
		"samples":                            samples,
		"runs_per_hour":                      int64(float64(a.Runs) / hours),
		"distinct_run_seeds":                 a.Runs,
		"calls":                              a.Calls,
		"simulated_steps":                    a.Steps,
		"simulated_time_ns":                  a.Steps * 1000,
		"simulated_time_note":                "simulated time is the global step counter (one tick = one yield site visited = 1 simulated microsecond); the library reads no clock on this tree unless sync_ops.clock > 0",
		"context_switches":                   a.Switches,
		"worker_processes":                   a.Procs,
		"cold_start_processes":               a.ColdProcs,
		"faults_fired":                       a.Faults,
		"fault_kinds_note":                   "preempt/stall/cold_start/caller_panic can fire on any tree; pool_*, lock_contend, clock_jump only if the library reaches the corresponding stub (sync_ops)",
		"runs_with_overlapping_calls":        a.OverlapRuns,
		"nontrivial_runs":                    a.NontrivRuns,
		"ordered_history_pairs":              a.HistoryPairs,
		"cold_start_runs_overlapped":         a.ColdOverlap,
		"calls_that_panicked":                a.PanicCalls,
		"yield_sites_instrumented":           len(e.Report.Sites),
		"yield_sites_visited":                sitesHit,
		"yield_sites_init_only":              initOnly,
		"yield_sites_never_visited":          never,
		"stub_operations_entered":            a.SyncOps,
		"runs_by_policy":                     a.PolicyRuns,
		"runs_by_workload_shape":             a.ShapeRuns,
		"runs_by_stage":                      a.StageRuns,
		"runs_by_task_count":                 a.TasksHist,
		"globals_digest_unchanged_processes": a.GlobalsSame,
		"globals_changed":                    globalsChanged,
		"library_spawned_goroutines":         a.Spawned,
		"library_goroutines_leaked":          a.Leaked,
		"pool_items_max":                     a.PoolItemsMax,
		"corpus":                             c.CStats,
		"further_rounds_with_derived_seeds":  c.Rounds,
		"corpus_growth":                      c.Grow,
		"literals_new_vs_baseline_tree":      c.Novel,
		"capacity_knobs":                     map[string]interface{}{"found": e.Report.Knobs, "variant": c.Knob},
		"reference": map[string]interface{}{
			"fresh_process_evaluations": c.Ref.FreshChecked, "order_disagreements": c.Ref.OrderDisagree, "fresh_disagreements": c.Ref.FreshDisagree, "excluded_inputs": c.Ref.ExcludedInputs, "process_killing_inputs": c.Ref.Crashers,
		},
		"instrumented_vs_shipped_equal": c.EquivN - c.EquivBad,
		"instrumented_vs_shipped_diff":  c.EquivBad,
		"determinism_selftest":          c.Determ,
		"instrumenter": map[string]interface{}{
			"files": len(e.Report.Files), "packages": e.Report.Packages, "swapped_imports": e.Report.SwappedImports, "time_redirects": e.Report.TimeRedirects,
			"go_statements": e.Report.GoStmts, "map_range_sites": e.Report.MapRangeSites, "unmodelled": e.Report.Unmodelled, "typecheck": e.Report.TypeCheck,
			"package_level_vars": len(e.Report.Globals), "static_global_write_sites": e.Report.GlobalWrites, "tree_digest": e.TreeDig, "site_map_digest": e.Report.SiteDigest,
		},
		"components": map[string]interface{}{
			"real": []string{"entire non-test source of the library package(s) from /repo's working tree (instrumented copy: yields added, nothing removed)", "Go runtime and standard library (strings, bytes, ...)", "ThreadSanitizer (go build -race) as data-race oracle", "uninstrumented non-race build of the same tree as result reference"},
			"stub": []string{"goroutine scheduling (cooperative hand-off decided by the seeded scheduler)", "sync (Mutex/RWMutex/Once/Pool/Map/WaitGroup/Cond)", "sync/atomic", "time.Now/Since/Until/Sleep", "math/rand top-level functions"},
		},
		"stage_wall_s":        c.Timings,
		"known_findings_seen": res.Known,
		"replays":             res.Replays,
	}
	ev := map[string]interface{}{
		"property_id": "C05",
		"tier":        c.Tier,
		"seed":        int64(c.Seed & 0x7fffffffffffffff),
		"level":       "exploration",
		"coverage":    cov,
		"assumptions": []string{
			"Seeded search samples schedules and histories; a clean batch is evidence, not proof.",
			"Interleavings are sequentially consistent at statement granularity (function entries, loop bodies, sync operations); weak-memory effects are covered only through the data-race oracle (a race-free Go program is SC).",
			"The instrumented copy behaves like the shipped code: re-established on every run by evaluating the whole corpus in both builds.",
			"ThreadSanitizer keeps a bounded access history per memory word.",
			"Reference results come from an uninstrumented build of the same working tree: the oracle is self-referential and never judges a verdict right or wrong.",
		},
		"wall_s":     wall,
		"violations": res.Violations,
	}
	dir := filepath.Join(e.OutDir, "evidence")
	os.MkdirAll(dir, 0o755)
	b, err := json.MarshalIndent(ev, "", " ")
	if err != nil {
		harnessFail("evidence: %v", err)
	}
	if err := os.WriteFile(filepath.Join(dir, "C05.json"), append(b, '\n'), 0o644); err != nil {
		harnessFail("evidence: %v", err)
	}
}
