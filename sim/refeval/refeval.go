// Package refeval is the reference evaluator: linked against the UNTOUCHED
// snapshot of the working tree (no instrumentation, no race detector), it
// evaluates inputs sequentially in one process, or one input as the first and
// only library call of a fresh process.
package refeval

import (
	"bufio"
	"fmt"
	"io"
	"os"
	"strings"
	"time"

	"verif/sim/common"
)

type SQLiFn func(string) (bool, string)
type XSSFn func(string) bool

func eval(api int, in string, s SQLiFn, x XSSFn) (res string) {
	defer func() {
		if r := recover(); r != nil {
			res = common.EncPanic(r)
		}
	}()
	if api == 0 {
		ok, fp := s(in)
		return common.EncSQLi(ok, fp)
	}
	return common.EncXSS(x(in))
}

// Main: refeval corpus <corpus-file> <out-file> [reverse]
//
//	refeval one <api> <b64-input>
//	refeval list <file-with "api\tb64" lines> <out-file>
func Main(s SQLiFn, x XSSFn) {
	if len(os.Args) < 2 {
		fmt.Fprintln(os.Stderr, "usage: refeval corpus|one|list ...")
		os.Exit(2)
	}
	switch os.Args[1] {
	case "corpus":
		c, err := common.ReadCorpus(os.Args[2])
		if err != nil {
			fmt.Fprintln(os.Stderr, err)
			os.Exit(2)
		}
		n := c.Len()
		out := make([][2]string, n)
		rev := len(os.Args) > 4 && os.Args[4] == "reverse"
		for k := 0; k < n; k++ {
			i := k
			if rev {
				i = n - 1 - k
				out[i][1] = eval(1, c.In[i], s, x)
				out[i][0] = eval(0, c.In[i], s, x)
			} else {
				out[i][0] = eval(0, c.In[i], s, x)
				out[i][1] = eval(1, c.In[i], s, x)
			}
		}
		f, err := os.Create(os.Args[3])
		if err != nil {
			fmt.Fprintln(os.Stderr, err)
			os.Exit(2)
		}
		w := bufio.NewWriterSize(f, 1<<20)
		for i := 0; i < n; i++ {
			fmt.Fprintf(w, "%s\t%s\n", common.B64(out[i][0]), common.B64(out[i][1]))
		}
		w.Flush()
		f.Close()
		if os.Getenv("VERIF_REF_LINGER") != "" {
			// a library goroutine that is still unwinding a panic (its deferred
			// WaitGroup.Done already released the caller) gets time to kill the process
			time.Sleep(40 * time.Millisecond)
		}
	case "one":
		arg := os.Args[3]
		if arg == "-" {
			b, err := io.ReadAll(os.Stdin)
			if err != nil {
				fmt.Fprintln(os.Stderr, err)
				os.Exit(2)
			}
			arg = strings.TrimSpace(string(b))
		}
		in, err := common.UnB64(arg)
		if err != nil {
			fmt.Fprintln(os.Stderr, err)
			os.Exit(2)
		}
		api := 0
		if os.Args[2] == "1" || os.Args[2] == "xss" {
			api = 1
		}
		fmt.Println(common.B64(eval(api, in, s, x)))
	case "list":
		data, err := os.ReadFile(os.Args[2])
		if err != nil {
			fmt.Fprintln(os.Stderr, err)
			os.Exit(2)
		}
		f, err := os.Create(os.Args[3])
		if err != nil {
			fmt.Fprintln(os.Stderr, err)
			os.Exit(2)
		}
		w := bufio.NewWriter(f)
		for _, line := range strings.Split(string(data), "\n") {
			if line == "" {
				continue
			}
			p := strings.SplitN(line, "\t", 2)
			in, _ := common.UnB64(p[1])
			api := 0
			if p[0] == "1" {
				api = 1
			}
			fmt.Fprintln(w, common.B64(eval(api, in, s, x)))
		}
		w.Flush()
		f.Close()
	default:
		os.Exit(2)
	}
}
