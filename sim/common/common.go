// Package common holds what the driver, the reference evaluator and the
// simulation worker share: corpus file format, result encoding, session specs.
package common

import (
	"bufio"
	"encoding/base64"
	"fmt"
	"os"
	"strconv"
	"strings"
)

// Corpus entry classes (bit flags).
const (
	FFixture = 1 << iota // --INPUT-- of a /repo/tests file
	FLiteral             // /verif/corpus/*.txt line
	FResidue             // prefix of another entry (leaves the scanner mid-construct)
	FProbe               // short input used as the second call of a history pair
	FMutated             // byte-level mutation drawn from VERIF_SEED
	FLong                // 10-100 kB
	FRep                 // residue representative used by the systematic history sweep
	FGrown               // found by coverage-guided growth on the current tree
	FFamily              // member of a token family (same word in SQLi and XSS syntactic positions)
	FHuge                // 70 kB .. 1.1 MB, mostly one token: only used by the huge-first sweep and the pair sweep
	FSplice              // two or three inputs joined by quotes (positive in several parsing contexts)
	FPadded              // a fixture/literal padded with benign filler to 0.6-9 kB (crosses length thresholds, keeps its head)
	FOdd                 // unusual byte classes (NUL-only, invalid UTF-8, text that grows under case mapping): also asked by the self-overlap sweep
)

type Corpus struct {
	In    []string
	Flags []int
	Ref   [2][]string // reference result per api
	Steps [2][]int64  // fault-free step count per api (from the instrumented sequential pass)
	Group []int32     // token-family id (0 = none); may be shorter than In
}

// GroupOf returns the family id of input i.
func (c *Corpus) GroupOf(i int) int32 {
	if i < len(c.Group) {
		return c.Group[i]
	}
	return 0
}

func (c *Corpus) Len() int { return len(c.In) }

// Encode result values -------------------------------------------------

func EncSQLi(ok bool, fp string) string {
	if ok {
		return "T:" + fp
	}
	return "F:" + fp
}

func EncXSS(ok bool) string {
	if ok {
		return "T"
	}
	return "F"
}

func EncPanic(v interface{}) string { return "P:" + fmt.Sprint(v) }

// Write writes corpus (inputs + flags) and, if present, refs and steps.
func (c *Corpus) Write(path string) error {
	f, err := os.Create(path)
	if err != nil {
		return err
	}
	w := bufio.NewWriterSize(f, 1<<20)
	for i, in := range c.In {
		fmt.Fprintf(w, "%s\t%d", base64.StdEncoding.EncodeToString([]byte(in)), c.Flags[i])
		for a := 0; a < 2; a++ {
			r := ""
			if i < len(c.Ref[a]) {
				r = c.Ref[a][i]
			}
			var st int64
			if i < len(c.Steps[a]) {
				st = c.Steps[a][i]
			}
			fmt.Fprintf(w, "\t%s\t%d", base64.StdEncoding.EncodeToString([]byte(r)), st)
		}
		fmt.Fprintf(w, "\t%d", c.GroupOf(i))
		w.WriteByte('\n')
	}
	if err := w.Flush(); err != nil {
		return err
	}
	return f.Close()
}

func ReadCorpus(path string) (*Corpus, error) {
	data, err := os.ReadFile(path)
	if err != nil {
		return nil, err
	}
	c := &Corpus{}
	for ln, line := range strings.Split(string(data), "\n") {
		if line == "" {
			continue
		}
		f := strings.Split(line, "\t")
		if len(f) != 6 && len(f) != 7 {
			return nil, fmt.Errorf("%s:%d: bad corpus line", path, ln+1)
		}
		g := 0
		if len(f) == 7 {
			g, _ = strconv.Atoi(f[6])
		}
		c.Group = append(c.Group, int32(g))
		in, err := base64.StdEncoding.DecodeString(f[0])
		if err != nil {
			return nil, err
		}
		fl, _ := strconv.Atoi(f[1])
		c.In = append(c.In, string(in))
		c.Flags = append(c.Flags, fl)
		for a := 0; a < 2; a++ {
			r, err := base64.StdEncoding.DecodeString(f[2+2*a])
			if err != nil {
				return nil, err
			}
			st, _ := strconv.ParseInt(f[3+2*a], 10, 64)
			c.Ref[a] = append(c.Ref[a], string(r))
			c.Steps[a] = append(c.Steps[a], st)
		}
	}
	return c, nil
}

// B64 helpers
func B64(s string) string { return base64.StdEncoding.EncodeToString([]byte(s)) }
func UnB64(s string) (string, error) {
	b, err := base64.StdEncoding.DecodeString(s)
	return string(b), err
}
