#!/bin/bash
# Runs the C05 check (default tier quick) against every seeded change in /verif/seeded/<id>/patch.diff:
# applies it to /repo, runs the check with output redirected away from /verif/evidence, undoes it at once.
# usage: tools/run_seeded.sh [tier] [ids...]
# VERIF_REPO may name a scratch clone of /repo (bulk regressions next to other work); default /repo itself.
set -u
cd "$(dirname "$0")/.."
TIER=${1:-quick}; shift || true
IDS=${*:-$(ls seeded)}
R=${VERIF_REPO:-/repo}; export VERIF_REPO=$R
if [ -n "$(git -C $R status --porcelain)" ]; then echo "$R is not clean; refusing" >&2; exit 2; fi
for id in $IDS; do
  P=seeded/$id/patch.diff; [ -f "$P" ] || continue
  OUT=$(mktemp -d /tmp/seeded_${id}_XXXX)
  git -C $R apply "$PWD/$P" || { echo "$id: patch does not apply"; continue; }
  t0=$(date +%s)
  VERIF_OUT=$OUT ./run C05 $TIER > $OUT/log 2>&1; rc=$?
  git -C $R checkout -- . ; git -C $R clean -fdq
  t1=$(date +%s)
  s=$(python3 - "$OUT" <<'PY'
import json,glob,sys
fs=sorted(glob.glob(sys.argv[1]+'/replays/*.json'))
if fs:
    r=json.load(open(fs[0])); a=r.get('minimisation',{}).get('after',{})
    print(r['stage'],'|',r['summary'][:150],'| min:',a)
PY
)
  exp=$(python3 -c "import json;print(json.load(open('seeded/$id/meta.json')).get('expect','detect'))" 2>/dev/null)
  verdict=OK; if [ "$exp" = silent ] && [ $rc -ne 0 ]; then verdict=UNEXPECTED; fi; if [ "$exp" = detect ] && [ $rc -ne 1 ]; then verdict=UNEXPECTED; fi
  # expect=miss: a recorded gap (see meta.json): reported, never counted as a failure of the regression
  if [ "$exp" = miss ]; then verdict="KNOWN-GAP"; [ $rc -eq 2 ] && verdict=UNEXPECTED; fi
  echo "$verdict $id expect=$exp rc=$rc $((t1-t0))s $s"
  rm -rf $OUT
done
